import CpModel.Tls.Msg
/-
  CpModel.Tls.Ssl2 — the SSL 2.0 record layer and its three message classes
  (`cryptoparser/tls/record.py: SslRecord`, `cryptoparser/tls/subprotocol.py: SslErrorMessage,
  SslHandshakeClientHello, SslHandshakeServerHello, SslSubprotocolMessageParser`), transcribed
  `_parse`/`compose` by `_parse`/`compose`, quirks included:

    * both header forms are parsed (2 bytes with the MSB set; 3 bytes with a padding length, the
      length masked with `0x3f`, i.e. the is-escape bit is ignored), only the 2-byte form is composed;
    * `record_length` is used for ONE thing only, the `record_length > unparsed_length` check; the
      message parser then runs on the whole rest of the buffer, and the padding is read after whatever
      the message consumed — the consumed length is NOT tied to `record_length`;
    * the version inside the hello messages is decoded strictly and dropped; compose writes SSL2;
    * `SslRecord.compose` refuses a body (type byte + message) of 2^15 bytes or more.

  Every `parse_numeric(name, k)` advances the cursor by exactly `k`, so the fields are read at fixed
  offsets of the buffer the class is handed (`bs.drop off`).
-/
namespace Cp.Ssl2
open Cp Cp.Codec

/-- An SSL 2.0 message object.  Cipher kinds are members of `SslCipherKind`, identified by their
index in the regenerated table `Gen.SslCipherKind.codes`; the error code is the value of the
`SslErrorType` member. -/
inductive Msg where
  | error (code : Nat)
  | clientHello (kinds : List Nat) (sessionId : Bytes) (challenge : Bytes)
  | serverHello (certificate : Bytes) (kinds : List Nat) (connectionId : Bytes) (hit : Bool)
deriving Repr, DecidableEq

/-- `SslRecord`: its only attribute that is not constant is the message -/
structure Record where
  message : Msg
deriving Repr, DecidableEq

/-- `get_message_type()` of the three registered classes (`SslMessageType` values) -/
def Msg.type : Msg → Nat
  | .error _ => 0
  | .clientHello .. => 1
  | .serverHello .. => 4

/-- index of `TlsVersion.SSL2` (code 0x0002) in the regenerated version table -/
def ssl2Idx : Nat := (findCode 0x0002 Gen.TlsVersion.codes).getD 0

/-- the single member of `SslCertificateType` the composer writes (`X509_CERTIFICATE`) -/
def x509CertificateType : Nat := 1

/-! ### cipher kinds: `parse_parsable_array(name, size, SslCipherKindFactory)` -/

/-- the `while unparsed_bytes:` loop of `_parse_parsable_derived_array` over the slice, with
`item_classes = [SslCipherKindFactory]` and no fallback class: a three-byte code decoded strictly;
an unknown code is `InvalidValue` → `ValueError` → (in `parse_parsable_array`) `InvalidValue`; a
trailing fragment of one or two bytes is the `NotEnoughData` of the item parser.  On fuel; every
item consumes three bytes so `slice length` iterations suffice. -/
def parseKindItems : Nat → Bytes → Except PErr (List Nat)
  | 0, b => if b.isEmpty then .ok [] else .error (.crash "NonTermination")
  | fuel + 1, b =>
    if b.isEmpty then .ok []
    else
      match parseCoded Gen.SslCipherKind.codes 3 b with
      | .error e => .error e
      | .ok (i, n) => (parseKindItems fuel (b.drop n)).map (i :: ·)

/-- `parse_parsable_array('cipher_kinds', size, SslCipherKindFactory)` on the unparsed tail: the
size check, the items of the slice, the cursor advances by `size` -/
def parseKinds (size : Nat) (rest : Bytes) : Except PErr (List Nat × Nat) :=
  if size > rest.length then .error (.notEnough ((size - rest.length : Nat) : Int))
  else
    match parseKindItems size (rest.take size) with
    | .error e => .error e
    | .ok items => .ok (items, size)

/-- `compose_numeric_array_enum_coded(cipher_kinds)`: each member's code in three bytes -/
def composeKinds (kinds : List Nat) : Except PErr Bytes :=
  composeItems (composeCoded Gen.SslCipherKind.codes 3) kinds

/-! ### the message classes -/

/-- `SslErrorMessage._parse`: `parse_numeric('error_type', 2, SslErrorType)` -/
def parseError (bs : Bytes) : Except PErr (Msg × Nat) :=
  match parseIntEnum Gen.SslErrorType.memberCodes 2 bs with
  | .error e => .error e
  | .ok (c, n) => .ok (.error c, n)

/-- `SslHandshakeClientHello._parse` -/
def parseClientHello (bs : Bytes) : Except PErr (Msg × Nat) :=
  match Tls.parseVersion bs with
  | .error e => .error e
  | .ok _ =>
  match parseNum .network 2 (bs.drop 2) with
  | .error e => .error e
  | .ok (ckLen, _) =>
  match parseNum .network 2 (bs.drop 4) with
  | .error e => .error e
  | .ok (sidLen, _) =>
  match parseNum .network 2 (bs.drop 6) with
  | .error e => .error e
  | .ok (chLen, _) =>
  match parseKinds ckLen (bs.drop 8) with
  | .error e => .error e
  | .ok (kinds, _) =>
  match parseRaw (sidLen : Int) (bs.drop (8 + ckLen)) with
  | .error e => .error e
  | .ok (sid, _) =>
  match parseRaw (chLen : Int) (bs.drop (8 + ckLen + sidLen)) with
  | .error e => .error e
  | .ok (ch, _) => .ok (.clientHello kinds sid ch, 8 + ckLen + sidLen + chLen)

/-- `SslHandshakeServerHello._parse`; `bool(session_id_hit)`; the certificate type goes through the
`SslCertificateType` converter and is dropped, as is the version -/
def parseServerHello (bs : Bytes) : Except PErr (Msg × Nat) :=
  match parseNum .network 1 bs with
  | .error e => .error e
  | .ok (hit, _) =>
  match parseIntEnum Gen.SslCertificateType.memberCodes 1 (bs.drop 1) with
  | .error e => .error e
  | .ok _ =>
  match Tls.parseVersion (bs.drop 2) with
  | .error e => .error e
  | .ok _ =>
  match parseNum .network 2 (bs.drop 4) with
  | .error e => .error e
  | .ok (certLen, _) =>
  match parseNum .network 2 (bs.drop 6) with
  | .error e => .error e
  | .ok (ckLen, _) =>
  match parseNum .network 2 (bs.drop 8) with
  | .error e => .error e
  | .ok (cidLen, _) =>
  match parseRaw (certLen : Int) (bs.drop 10) with
  | .error e => .error e
  | .ok (cert, _) =>
  match parseKinds ckLen (bs.drop (10 + certLen)) with
  | .error e => .error e
  | .ok (kinds, _) =>
  match parseRaw (cidLen : Int) (bs.drop (10 + certLen + ckLen)) with
  | .error e => .error e
  | .ok (cid, _) => .ok (.serverHello cert kinds cid (hit != 0), 10 + certLen + ckLen + cidLen)

/-- `SslSubprotocolMessageParser(message_type).parse`: the registered classes are ERROR (0),
CLIENT_HELLO (1) and SERVER_HELLO (4); any other member of `SslMessageType` is `InvalidValue` -/
def parseMsg (typ : Nat) (bs : Bytes) : Except PErr (Msg × Nat) :=
  if typ = 0 then parseError bs
  else if typ = 1 then parseClientHello bs
  else if typ = 4 then parseServerHello bs
  else .error .invalidValue

/-- `compose()` of the three message classes (the type byte is the record's business) -/
def composeMsg : Msg → Except PErr Bytes
  | .error c => composeNum .network 2 (c : Int)
  | .clientHello kinds sid ch => do
    let v ← Tls.composeVersion ssl2Idx
    let a ← composeNum .network 2 ((kinds.length * 3 : Nat) : Int)
    let b ← composeNum .network 2 ((sid.length : Nat) : Int)
    let c ← composeNum .network 2 ((ch.length : Nat) : Int)
    let k ← composeKinds kinds
    pure (v ++ a ++ b ++ c ++ k ++ sid ++ ch)
  | .serverHello cert kinds cid hit => do
    let h ← composeNum .network 1 ((if hit then 1 else 0 : Nat) : Int)
    let t ← composeNum .network 1 ((x509CertificateType : Nat) : Int)
    let v ← Tls.composeVersion ssl2Idx
    let a ← composeNum .network 2 ((cert.length : Nat) : Int)
    let b ← composeNum .network 2 ((kinds.length * 3 : Nat) : Int)
    let c ← composeNum .network 2 ((cid.length : Nat) : Int)
    let k ← composeKinds kinds
    pure (h ++ t ++ v ++ a ++ b ++ c ++ cert ++ k ++ cid)

/-! ### the record -/

/-- The header as `SslRecord._parse` reads it: (header size, record_length, padding_length).
`record_length_0 & 0x80` selects the 2-byte form; otherwise the length is masked with `0x3f` (the
is-escape bit `0x40` is ignored) and a third byte gives the padding length. -/
def parseHeader (bs : Bytes) : Except PErr (Nat × Nat × Nat) :=
  match parseNum .network 1 bs with
  | .error e => .error e
  | .ok (l0, _) =>
  match parseNum .network 1 (bs.drop 1) with
  | .error e => .error e
  | .ok (l1, _) =>
    if l0 &&& 0x80 != 0 then .ok (2, (l0 &&& 0x7f) * 2 ^ 8 + l1, 0)
    else
      match parseNum .network 1 (bs.drop 2) with
      | .error e => .error e
      | .ok (pad, _) => .ok (3, (l0 &&& 0x3f) * 2 ^ 8 + l1, pad)

/-- what follows the length check: the message type through the `SslMessageType` converter, the
message on THE WHOLE REST of the buffer, then `parse_raw('padding', padding_length)` -/
def parseBody (hdr padLen : Nat) (bs : Bytes) : Except PErr (Record × Nat) :=
  match parseIntEnum Gen.SslMessageType.memberCodes 1 (bs.drop hdr) with
  | .error e => .error e
  | .ok (t, _) =>
  match parseMsg t (bs.drop (hdr + 1)) with
  | .error e => .error e
  | .ok (m, n) =>
  match parseRaw (padLen : Int) (bs.drop (hdr + 1 + n)) with
  | .error e => .error e
  | .ok (_, p) => .ok (⟨m⟩, hdr + 1 + n + p)

/-- `SslRecord._parse` -/
def parseRecord (bs : Bytes) : Except PErr (Record × Nat) :=
  match parseHeader bs with
  | .error e => .error e
  | .ok (hdr, recLen, padLen) =>
    if recLen > bs.length - hdr then .error (.notEnough ((recLen - (bs.length - hdr) : Nat) : Int))
    else parseBody hdr padLen bs

/-- `SslRecord.compose`: type byte and message; the guard; `body_length | 2**15` in two bytes -/
def composeRecord (r : Record) : Except PErr Bytes := do
  let t ← composeNum .network 1 ((r.message.type : Nat) : Int)
  let m ← composeMsg r.message
  let bodyLen := t.length + m.length
  if bodyLen ≥ 2 ^ 15 then .error .invalidValue
  else
    let h ← composeNum .network 2 ((bodyLen ||| 2 ^ 15 : Nat) : Int)
    pure (h ++ (t ++ m))

def recordCodec : Codec Record := ⟨parseRecord, composeRecord⟩
def errorCodec : Codec Msg := ⟨parseError, composeMsg⟩
def clientHelloCodec : Codec Msg := ⟨parseClientHello, composeMsg⟩
def serverHelloCodec : Codec Msg := ⟨parseServerHello, composeMsg⟩

/-! ### what the header of an input declares (for the statements of C03) -/

/-- 2 for the 2-byte form (MSB of the first byte set), 3 otherwise -/
def headerSize (bs : Bytes) : Nat := if (bs.getD 0 0).toNat &&& 0x80 != 0 then 2 else 3

/-- the record length the header declares: 15 bits in the 2-byte form, 14 bits (as the code masks
them) in the 3-byte form -/
def declaredLength (bs : Bytes) : Nat :=
  if (bs.getD 0 0).toNat &&& 0x80 != 0 then ((bs.getD 0 0).toNat &&& 0x7f) * 2 ^ 8 + (bs.getD 1 0).toNat
  else ((bs.getD 0 0).toNat &&& 0x3f) * 2 ^ 8 + (bs.getD 1 0).toNat

/-- the padding length the header declares (0 in the 2-byte form) -/
def declaredPadding (bs : Bytes) : Nat :=
  if (bs.getD 0 0).toNat &&& 0x80 != 0 then 0 else (bs.getD 2 0).toNat

/-! ### the constructible domain -/

/-- length of `compose()` of a message -/
def Msg.size : Msg → Nat
  | .error _ => 2
  | .clientHello kinds sid ch => 8 + kinds.length * 3 + sid.length + ch.length
  | .serverHello cert kinds cid _ => 10 + cert.length + kinds.length * 3 + cid.length

def kindsOk (kinds : List Nat) : Prop := ∀ i ∈ kinds, i < Gen.SslCipherKind.codes.length

/-- well-formed message: an error code of `SslErrorType`; cipher kinds that are members; every
length fits its 16-bit field -/
def Msg.wf : Msg → Prop
  | .error c => c ∈ Gen.SslErrorType.memberCodes
  | .clientHello kinds sid ch =>
    kindsOk kinds ∧ kinds.length * 3 < 65536 ∧ sid.length < 65536 ∧ ch.length < 65536
  | .serverHello cert kinds cid _ =>
    kindsOk kinds ∧ cert.length < 65536 ∧ kinds.length * 3 < 65536 ∧ cid.length < 65536

instance (kinds : List Nat) : Decidable (kindsOk kinds) := by unfold kindsOk; infer_instance
instance (m : Msg) : Decidable m.wf := by cases m <;> unfold Msg.wf <;> infer_instance

/-- well-formed record: a well-formed message whose body (type byte + message) fits 15 bits -/
def Record.wf (r : Record) : Prop := r.message.wf ∧ 1 + r.message.size < 32768

instance (r : Record) : Decidable r.wf := by unfold Record.wf; infer_instance

end Cp.Ssl2
