import CpModel.Tls.Msg
/-
  CpModel.Cost — tick-counting counterparts of the binary loops of the model (C19).

  The unit is the INTERPRETER STEP: one tick per pass through a loop body / per evaluation of a loop condition and one
  tick per primitive call of `ParserBinary` (`parse_numeric`, `parse_raw`, `parse_bytes` = 2, a size check).  It is the
  unit line events of the real parse are proportional to — NOT bytes copied: a slice such as
  `unparsed_bytes[parsed_length:]` is one step however long the slice is (see `Cp.Text.sepSearchBytes` for the other
  unit).  Every `…Ticks` function follows the control flow of the function it accompanies (early exits included) and
  is total; none of them changes a model definition.

    loops       `parseItemsTicks` (`_parse_parsable_derived_array`), `numItemsTicks` (`_parse_numeric_array`),
                `findCodeTicks` (`for enum_item in list(enum)`), the constructor's pass over the parsed items
    variants    `firstNotInvalidTypeTicks`, `variantTicks` (`VariantParsable._parse`), `walkExtVariantsTicks`
    framing     `recordTicks`, `hsHeaderTicks`, `hsFramedTicks`
    classes     `clientHelloInnerTicks`, `serverHelloInnerTicks`, `certificatesTicks` and the per-class totals
-/
namespace Cp.Cost
open Cp Cp.Codec Cp.Tls

variable {α : Type}

/-! ## primitives and loops -/

/-- passes through `for enum_item in list(enum): if enum_item.value.code == code` until the hit (or the end) -/
def findCodeTicks (c : Nat) : List Nat → Nat
  | [] => 0
  | x :: xs => if x = c then 1 else 1 + findCodeTicks c xs

/-- `NByteEnumParsable._parse`: `parse_numeric`, then the search through the members -/
def codedTicks (codes : List Nat) (k : Nat) (rest : Bytes) : Nat :=
  match parseNum .network k rest with
  | .error _ => 1
  | .ok (c, _) => 1 + findCodeTicks c codes

/-- one position with a fallback class: the strict parser, and the fallback's `parse_numeric` on `InvalidValue` -/
def codedOrFallbackTicks (codes : List Nat) (k : Nat) (rest : Bytes) : Nat :=
  codedTicks codes k rest +
    match parseCoded codes k rest with
    | .error .invalidValue => 1
    | _ => 0

/-- `_parse_numeric_array(name, n, k, …)`: the length check; the loop body runs `n` times ONLY when `n * k` bytes are
there (and `k` is a known size) -/
def numItemsTicks (n k : Nat) (rest : Bytes) : Nat :=
  if rest.length < n * k then 1 else if !validSize k then 1 else 1 + n

/-- `_parse_parsable_derived_array` on a slice: one tick per evaluation of `while unparsed_bytes:` plus the ticks of
every item parse (`itemTicks` is given the bytes the item parser is given). Same recursion as `Codec.parseItems`. -/
def parseItemsTicks (item : Bytes → Except PErr (α × Nat)) (itemTicks : Bytes → Nat) : Nat → Bytes → Nat
  | 0, _ => 1
  | fuel + 1, b =>
    if b.isEmpty then 1
    else
      match item b with
      | .error _ => 1 + itemTicks b
      | .ok (_, n) =>
        if n == 0 then 1 + itemTicks b
        else 1 + itemTicks b + parseItemsTicks item itemTicks fuel (b.drop n)

/-- evaluations of the loop condition alone -/
def itemIterations (item : Bytes → Except PErr (α × Nat)) (fuel : Nat) (b : Bytes) : Nat :=
  parseItemsTicks item (fun _ => 0) fuel b

/-- `VectorParsable._parse` and relatives: `parse_numeric` of the length, the presence check, the item loop on exactly
the declared slice, and — on success — the constructor's single pass over the parsed items (`append`,
`get_item_size`) with the bounds check. -/
def vecItemsTicks (p : VecParam) (item : Bytes → Except PErr (α × Nat)) (itemTicks : Bytes → Nat) (bs : Bytes) : Nat :=
  match parseNum .network p.numSize bs with
  | .error _ => 1
  | .ok (len, n) =>
    let rest := bs.drop n
    if rest.length < len then 2
    else
      2 + parseItemsTicks item itemTicks len (rest.take len) +
        match parseItems item len (rest.take len) with
        | .ok items => 1 + items.length
        | .error _ => 0

/-- `Vector._parse` (fixed-width numeric items): length, `_parse_numeric_array`, constructor pass -/
def vecNumTicks (p : VecParam) (itemSize : Nat) (bs : Bytes) : Nat :=
  match parseNum .network p.numSize bs with
  | .error _ => 1
  | .ok (len, n) =>
    1 + numItemsTicks (len / itemSize) itemSize (bs.drop n) +
      match parseNumArray .network (len / itemSize) itemSize (bs.drop n) with
      | .ok (raw, _) => 1 + raw.length
      | .error _ => 0

/-- `Opaque._parse`: length, `parse_raw`, the comprehension over the bytes and the constructor pass -/
def opaqueTicks (p : VecParam) (bs : Bytes) : Nat :=
  match parseNum .network p.numSize bs with
  | .error _ => 1
  | .ok (len, n) =>
    match parseRaw (len : Int) (bs.drop n) with
    | .error _ => 2
    | .ok (body, _) => 3 + 2 * body.length

/-! ## variants -/

/-- alternatives tried by `VariantParsable._parse` -/
def firstNotInvalidTypeTicks : List (Bytes → Except PErr (α × Nat)) → Bytes → Nat
  | [], _ => 0
  | p :: ps, bs =>
    match p bs with
    | .error .invalidType => 1 + firstNotInvalidTypeTicks ps bs
    | _ => 1

/-- the same with the cost of every alternative tried -/
def variantTicks : List ((Bytes → Except PErr (α × Nat)) × (Bytes → Nat)) → Bytes → Nat
  | [], _ => 0
  | (p, t) :: ps, bs =>
    match p bs with
    | .error .invalidType => 1 + t bs + variantTicks ps bs
    | _ => 1 + t bs

/-! ## framing -/

/-- `TlsRecord._parse`: size check, content type, version (a member search), `parse_bytes` (length + raw) -/
def recordTicks (bs : Bytes) : Nat :=
  if bs.length < Gen.TlsRecord_HEADER_SIZE then 1
  else 4 + codedTicks Gen.TlsVersion.codes 2 (bs.drop 1)

/-- `_parse_handshake_header`: size check, type byte, type comparison, `parse_bytes` (length + raw) -/
def hsHeaderTicks : Nat := 5

/-- a handshake message class: the header, then the class's own parser on the payload -/
def hsFramedTicks (typ : Nat) (innerTicks : Bytes → Nat) (bs : Bytes) : Nat :=
  hsHeaderTicks +
    match (hsHeaderCodec typ).parse bs with
    | .ok (pl, _) => innerTicks pl
    | .error _ => 0

/-! ## hello extensions -/

/-- `_check_header` of an extension class: the type (a member search), the length, the presence check -/
def extHeaderTicks (bs : Bytes) : Nat := codedTicks Gen.ExtensionType.codes 2 bs + 2

/-- `TlsExtensionUnparsed._parse`: type, length, presence check, `parse_raw` -/
def extUnparsedTicks : Nat := 4

def vecCodedTicks (p : VecParam) (codes : List Nat) (k : Nat) (bs : Bytes) : Nat :=
  vecItemsTicks p (parseCodedOrFallback codes k) (codedOrFallbackTicks codes k) bs

/-! the structured bodies of CpModel/Tls/Ext2.lean.  Every class reads from the declared extension data only
(`walkExtVariants` hands the body parser `(bs.drop 4).take len`), so whatever it does is bounded by that data. -/

/-- `OpaqueEnumParsable._parse`: the vector of bytes (`Vector._parse`), the decode, the member search -/
def nameTicks (p : VecParam) (table : List Gen.WireName) (bs : Bytes) : Nat :=
  opaqueTicks p bs + table.length + 2

/-- `TlsKeyShareEntry._parse`: the group (a member search), then the key exchange vector -/
def keyShareKnownTicks (bs : Bytes) : Nat :=
  codedTicks Gen.TlsNamedCurve.codes 2 bs +
    match parseCoded Gen.TlsNamedCurve.codes 2 bs with
    | .ok (_, n) => opaqueTicks keyExchangeParam (bs.drop n)
    | .error _ => 0

/-- one position of `TlsKeyShareEntryVector`: the strict class, and on `InvalidValue` the fallback class
(`parse_numeric` of the code, `parse_bytes` = 2) -/
def keyShareTicks (bs : Bytes) : Nat := keyShareKnownTicks bs + 3

/-- `SignedCertificateTimestamp._parse`: `parse_bytes` (2), then on the blob version, log id, timestamp, the
extensions (`Opaque`), the algorithm (a member search), the signature (`Opaque`), the sentinel test, the log lookup
of the constructor — an upper estimate: the two opaque fields cost at most two steps per byte of the blob -/
def sctTicks (bs : Bytes) : Nat :=
  2 + match parseBytes .network 2 bs with
      | .error _ => 0
      | .ok (sct, _) => 12 + Gen.TlsSignatureAndHashAlgorithm.codes.length + 2 * sct.length

/-- the part of `VectorParsable._parse` after the length prefix (`parseVecBody`): the presence check, the item loop
on the declared slice, the constructor's pass -/
def vecBodyTicks (item : Bytes → Except PErr (α × Nat)) (itemTicks : Bytes → Nat) (len : Nat) (rest : Bytes) : Nat :=
  if rest.length < len then 1
  else
    1 + parseItemsTicks item itemTicks len (rest.take len) +
      match parseItems item len (rest.take len) with
      | .ok items => 1 + items.length
      | .error _ => 0

def ext2BodyTicks (k : Ext2Kind) (len : Nat) (rest : Bytes) : Nat :=
  match k with
  | .serverName =>
    -- list length, name type, the host name vector, the two passes of the idna codec over the name (label loop)
    2 + opaqueTicks serverNameParam (rest.drop 3) +
      match parseOpaque serverNameParam (rest.drop 3) with
      | .ok (host, _) => 2 * host.length
      | .error _ => 0
  | .protocolNames =>
    vecItemsTicks protocolNameListParam (parseName protocolNameParam Gen.TlsProtocolName_wire)
      (nameTicks protocolNameParam Gen.TlsProtocolName_wire) rest
  | .nextProtocolNames =>
    1 + vecBodyTicks (parseName nextProtocolNameParam Gen.TlsNextProtocolName_wire)
      (nameTicks nextProtocolNameParam Gen.TlsNextProtocolName_wire) len rest
  | .statusRequest =>
    1 + vecItemsTicks responderIdListParam (parseOpaque responderIdParam) (opaqueTicks responderIdParam) (rest.drop 1) +
      match parseVecItems responderIdListParam (parseOpaque responderIdParam)
          (fun d => (composeOpaque responderIdParam d).map (·.length)) (rest.drop 1) with
      | .ok (_, n2) => opaqueTicks requestExtensionsParam ((rest.drop 1).drop n2)
      | .error _ => 0
  | .keyShareClient => vecItemsTicks keyShareListParam parseKeyShare keyShareTicks rest
  | .keyShareServer => keyShareKnownTicks rest
  | .keyShareHelloRetry =>
    -- the test of the declared length belongs to the header check of the alternative (`extHeaderTicks`)
    if len != 2 then 0 else 1 + codedTicks Gen.TlsNamedCurve.codes 2 rest
  | .tokenBinding => 3 + vecCodedTicks tokenBindingParam Gen.TlsTokenBindingParamater.codes 1 (rest.drop 2)
  | .sctList => vecItemsTicks sctListParam parseSct sctTicks rest

def extBodyTicks (kind : ExtKind) (len : Nat) (rest : Bytes) : Nat :=
  match kind with
  | .unusedData => 1
  | .vecCoded p codes k => vecItemsTicks p (parseCodedOrFallback codes k) (codedOrFallbackTicks codes k) rest
  | .renegotiationInfo => opaqueTicks (vp Gen.vec_TlsRenegotiatedConnection) rest
  | .sessionTicket => 1
  | .padding =>
    -- `parse_raw`, then the generator over the padding bytes looking for a non-zero one
    1 + match parseRaw (len : Int) rest with
        | .ok (d, _) => d.length
        | .error _ => 0
  | .recordSizeLimit => 1
  | .supportedVersionsClient =>
    vecItemsTicks (vp Gen.vec_TlsSupportedVersionVector) parseVersionOrFallback
      (codedOrFallbackTicks Gen.TlsVersion.codes 2) rest
  | .supportedVersionsServer => codedTicks Gen.TlsVersion.codes 2 rest
  | .ext2 k => ext2BodyTicks k len rest

/-- alternatives tried by the walk over the extension variant list (same recursion as `walkExtVariants`) -/
def walkExtVariantsTicks (t len : Nat) (bs : Bytes) : List (String × Nat) → Nat
  | [] => 0
  | (cls, code) :: more =>
    if cls == "TlsExtensionUnparsed" then 1
    else if code != t then 1 + walkExtVariantsTicks t len bs more
    else
      match extKindOf cls with
      | none => 1
      | some kind =>
        match parseExtBody kind len ((bs.drop 4).take len) with
        | .error .invalidType => 1 + walkExtVariantsTicks t len bs more
        | _ => 1

/-- ticks of the bodies parsed on the way (the class whose type matches; `parse_raw` for the unparsed class) -/
def walkExtBodyTicks (t len : Nat) (bs : Bytes) : List (String × Nat) → Nat
  | [] => 0
  | (cls, code) :: more =>
    if cls == "TlsExtensionUnparsed" then 1
    else if code != t then walkExtBodyTicks t len bs more
    else
      match extKindOf cls with
      | none => 0
      | some kind =>
        extBodyTicks kind len ((bs.drop 4).take len) +
          match parseExtBody kind len ((bs.drop 4).take len) with
          | .error .invalidType => walkExtBodyTicks t len bs more
          | _ => 0

/-- `TlsExtensionVariantClient/Server._parse`: every alternative tried runs `_check_header` -/
def extVariantTicks (variants : List (String × Nat)) (bs : Bytes) : Nat :=
  match parseCoded Gen.ExtensionType.codes 2 bs with
  | .error _ => extHeaderTicks bs
  | .ok (ti, _) =>
    let t := Gen.ExtensionType.codes.getD ti 0
    match parseNum .network 2 (bs.drop 2) with
    | .error _ => extHeaderTicks bs
    | .ok (len, _) =>
      if (bs.drop 4).length < len then extHeaderTicks bs
      else walkExtVariantsTicks t len bs variants * extHeaderTicks bs + walkExtBodyTicks t len bs variants

/-- one position of the extension vector: the variant, and the fallback class on `InvalidValue` -/
def extTicks (variants : List (String × Nat)) (bs : Bytes) : Nat :=
  extVariantTicks variants bs +
    match parseExtVariant variants bs with
    | .error .invalidValue => extUnparsedTicks
    | _ => 0

def extensionsTicks (variants : List (String × Nat)) (p : VecParam) (bs : Bytes) : Nat :=
  vecItemsTicks p (parseExt variants) (extTicks variants) bs

/-- `_parse_extensions`: the comparison, and the vector when something is left -/
def optExtensionsTicks (variants : List (String × Nat)) (p : VecParam) (pl : Bytes) (pos : Nat) : Nat :=
  if pos ≥ pl.length then 1 else 1 + extensionsTicks variants p (pl.drop pos)

/-! ## hello messages, certificate -/

/-- `_parse_hello_header`: version (member search), random (time + 28 bytes), session id vector -/
def helloHeaderTicks (pl : Bytes) : Nat :=
  codedTicks Gen.TlsVersion.codes 2 pl +
    match parseVersion pl with
    | .error _ => 0
    | .ok (_, n1) =>
      2 + match parseRandom (pl.drop n1) with
          | .error _ => 0
          | .ok (_, n2) => vecNumTicks sessionIdParam 1 (pl.drop (n1 + n2))

/-- `TlsHandshakeClientHello._parse` on the payload; the last summand is the pass over the cipher suites that folds
the SCSV markers and the constructor's pass over the kept ones -/
def clientHelloInnerTicks (pl : Bytes) : Nat :=
  helloHeaderTicks pl +
    match parseHelloHeader pl with
    | .error _ => 0
    | .ok (_, n1) =>
      vecCodedTicks cipherSuiteParam Gen.TlsCipherSuite.codes 2 (pl.drop n1) +
        match parseVecCoded cipherSuiteParam Gen.TlsCipherSuite.codes 2 (pl.drop n1) with
        | .error _ => 0
        | .ok (cs, n2) =>
          vecCodedTicks compressionParam Gen.TlsCompressionMethod.codes 1 (pl.drop (n1 + n2)) +
            match parseVecCoded compressionParam Gen.TlsCompressionMethod.codes 1 (pl.drop (n1 + n2)) with
            | .error _ => 0
            | .ok (_, n3) =>
              optExtensionsTicks Gen.extVariantsClient (vp Gen.vec_TlsExtensionsClient) pl (n1 + n2 + n3) +
                match parseOptExtensions Gen.extVariantsClient (vp Gen.vec_TlsExtensionsClient) pl (n1 + n2 + n3) with
                | .error _ => 0
                | .ok _ => 1 + 2 * cs.length

def clientHelloTicks (bs : Bytes) : Nat := hsFramedTicks 1 clientHelloInnerTicks bs

/-- `TlsHandshakeServerHello._parse` / `TlsHandshakeHelloRetryRequest._parse` on the payload -/
def serverHelloInnerTicks (pl : Bytes) : Nat :=
  helloHeaderTicks pl +
    match parseHelloHeader pl with
    | .error _ => 0
    | .ok (_, n1) =>
      codedTicks Gen.TlsCipherSuite.codes 2 (pl.drop n1) +
        match parseCoded Gen.TlsCipherSuite.codes 2 (pl.drop n1) with
        | .error _ => 0
        | .ok (_, n2) =>
          codedTicks Gen.TlsCompressionMethod.codes 1 (pl.drop (n1 + n2)) +
            match parseCoded Gen.TlsCompressionMethod.codes 1 (pl.drop (n1 + n2)) with
            | .error _ => 0
            | .ok (_, n3) =>
              optExtensionsTicks Gen.extVariantsServer (vp Gen.vec_TlsExtensionsServer) pl (n1 + n2 + n3)

def serverHelloTicks (typ : Nat) (bs : Bytes) : Nat := hsFramedTicks typ serverHelloInnerTicks bs

/-- `TlsCertificates._parse`: every certificate is one `parse_bytes` (length + raw) -/
def certificatesTicks (pl : Bytes) : Nat :=
  vecItemsTicks certificatesParam (parseBytes .network 3) (fun _ => 2) pl

def certificateTicks (bs : Bytes) : Nat := hsFramedTicks 11 certificatesTicks bs

/-- `TlsDistinguishedNameVector._parse`: every name is one `Opaque._parse` -/
def distinguishedNamesTicks (bs : Bytes) : Nat :=
  vecItemsTicks distinguishedNameListParam (parseOpaque distinguishedNameParam) (opaqueTicks distinguishedNameParam) bs

/-- `TlsHandshakeCertificateRequest._parse` on the payload: the certificate types, the look-ahead, the signature
algorithms when present, the distinguished names -/
def certificateRequestInnerTicks (pl : Bytes) : Nat :=
  vecNumTicks clientCertificateTypeParam 1 pl +
    match parseVecNum clientCertificateTypeParam 1 convCertificateType pl with
    | .error _ => 0
    | .ok (_, n1) =>
      1 + match parseNum .network 2 (pl.drop n1) with
          | .error _ => 0
          | .ok (vl, _) =>
            if vl + 2 == (pl.drop n1).length then distinguishedNamesTicks (pl.drop n1)
            else
              vecCodedTicks signatureAlgorithmsParam Gen.TlsSignatureAndHashAlgorithm.codes 2 (pl.drop n1) +
                match parseVecCoded signatureAlgorithmsParam Gen.TlsSignatureAndHashAlgorithm.codes 2 (pl.drop n1) with
                | .error _ => 0
                | .ok (_, n2) => distinguishedNamesTicks (pl.drop (n1 + n2))

/-- payload parsers of the other modelled handshake classes: a constant number of primitive calls -/
def hsClassInnerTicks : HsClass → Bytes → Nat
  | .clientHello => clientHelloInnerTicks
  | .serverHello => serverHelloInnerTicks
  | .helloRetryRequest => serverHelloInnerTicks
  | .certificate => certificatesTicks
  | .serverKeyExchange => fun _ => 1
  | .certificateStatus => fun _ => 3
  | .serverHelloDone => fun _ => 1
  | .certificateRequest => certificateRequestInnerTicks

def hsClassTicks (c : HsClass) (bs : Bytes) : Nat := hsFramedTicks c.typ (hsClassInnerTicks c) bs

/-- one alternative of `TlsHandshakeMessageVariant` with its cost (an unmodelled class runs the header only) -/
def hsAltTicks (e : String × Nat) (bs : Bytes) : Nat :=
  match hsClassOfName e.1 with
  | some c => hsClassTicks c bs
  | none => hsHeaderTicks

def handshakeVariantTicks (bs : Bytes) : Nat :=
  variantTicks (Gen.handshakeVariants.map fun e => (hsAlt e, hsAltTicks e)) bs

/-! ## the constants of the linear bounds (computed from the regenerated tables, not assumed) -/

/-- cost of one coded item with fallback, whatever the input -/
def codedItemC (codes : List Nat) : Nat := codes.length + 2

/-- slope and offset of a vector of coded items: `vecCodedTicks p codes k bs ≤ codedVecA codes * bs.length + 4` -/
def codedVecA (codes : List Nat) : Nat := codedItemC codes + 2

/-- slope of one vector of opaque-coded names: `nameTicks ≤ 2 * n + (table.length + 5)` per name -/
def nameVecA (table : List Gen.WireName) : Nat := 2 + (table.length + 5) + 2

/-- slope of the key share vector: per entry the member search, the key vector, the fallback -/
def keyShareVecA : Nat := 2 + (Gen.TlsNamedCurve.codes.length + 7) + 2

/-- slope of the SCT vector -/
def sctVecA : Nat := 2 + (Gen.TlsSignatureAndHashAlgorithm.codes.length + 14) + 2

/-- slope and offset of the body parsers of the structured bodies (`ext2BodyTicks`) -/
def ext2BodyA : Nat :=
  nameVecA Gen.TlsProtocolName_wire + nameVecA Gen.TlsNextProtocolName_wire + keyShareVecA + sctVecA +
    codedVecA Gen.TlsTokenBindingParamater.codes + 7 + 4
def ext2BodyC : Nat := Gen.TlsNamedCurve.codes.length + 12

/-- slope of the body parsers of the modelled extension classes -/
def extBodyA : Nat :=
  codedVecA Gen.TlsNamedCurve.codes + codedVecA Gen.TlsECPointFormat.codes +
    codedVecA Gen.TlsSignatureAndHashAlgorithm.codes + codedVecA Gen.TlsPskKeyExchangeMode.codes +
    codedVecA Gen.TlsCertificateCompressionAlgorithm.codes + codedVecA Gen.TlsVersion.codes + 2 + ext2BodyA

/-- offset of the body parsers -/
def extBodyC : Nat := Gen.TlsVersion.codes.length + 5 + ext2BodyC

/-- the header cost of one alternative -/
def extHeaderC : Nat := Gen.ExtensionType.codes.length + 3

/-- cost of one extension that is not paid for by the bytes it consumes -/
def extItemC (variants : List (String × Nat)) : Nat :=
  (variants.length + 1) * extHeaderC + extBodyC + extUnparsedTicks

/-- slope of an extension vector -/
def extVecA (variants : List (String × Nat)) : Nat := extBodyA + extItemC variants + 2

def helloHeaderC : Nat := Gen.TlsVersion.codes.length + 7

/-- `clientHelloInnerTicks pl ≤ clientHelloA * pl.length + clientHelloB` -/
def clientHelloA : Nat :=
  2 + (codedVecA Gen.TlsCipherSuite.codes + 2) + codedVecA Gen.TlsCompressionMethod.codes + extVecA Gen.extVariantsClient

def clientHelloB : Nat := helloHeaderC + 4 + 4 + 6 + 1

def serverHelloA : Nat := 2 + extVecA Gen.extVariantsServer

def serverHelloB : Nat :=
  helloHeaderC + (Gen.TlsCipherSuite.codes.length + 1) + (Gen.TlsCompressionMethod.codes.length + 1) + 6

def certificatesA : Nat := 4
def certificatesB : Nat := 4

/-- `certificateRequestInnerTicks pl ≤ certificateRequestA * pl.length + certificateRequestB` -/
def certificateRequestA : Nat := 2 + codedVecA Gen.TlsSignatureAndHashAlgorithm.codes + 7
def certificateRequestB : Nat := 3 + 1 + 4 + 4

def recordB : Nat := Gen.TlsVersion.codes.length + 5

/-! ## the class graph of the TLS model (who invokes whose parser) -/

inductive Cls where
  | record | alert | changeCipherSpec | applicationData
  | handshakeVariant
  | clientHello | serverHello | helloRetryRequest | certificate | serverKeyExchange | certificateStatus
  | serverHelloDone | certificateRequest | unmodelledHandshake
  | protocolVersion | helloRandom | sessionIdVector | cipherSuiteVector | compressionMethodVector
  | cipherSuite | compressionMethod
  | extensionsClient | extensionsServer | extensionVariantClient | extensionVariantServer
  | extensionParsed | extensionUnparsed | extensionType
  | codedVector | codedItem | renegotiatedConnection | supportedVersionVector
  | certificates | certificateEntry
  | clientCertificateTypeVector | distinguishedNameVector | distinguishedName
  -- the extension classes with structured bodies (CpModel/Tls/Ext2.lean) and what they invoke
  | extensionStructured | opaqueLeaf | protocolNameList | protocolName | responderIdList
  | keyShareEntryVector | keyShareEntry | sctList | sct
deriving DecidableEq, Repr

def Cls.all : List Cls :=
  [.record, .alert, .changeCipherSpec, .applicationData, .handshakeVariant, .clientHello, .serverHello,
   .helloRetryRequest, .certificate, .serverKeyExchange, .certificateStatus, .serverHelloDone, .certificateRequest,
   .unmodelledHandshake,
   .protocolVersion, .helloRandom, .sessionIdVector, .cipherSuiteVector, .compressionMethodVector, .cipherSuite,
   .compressionMethod, .extensionsClient, .extensionsServer, .extensionVariantClient, .extensionVariantServer,
   .extensionParsed, .extensionUnparsed, .extensionType, .codedVector, .codedItem, .renegotiatedConnection,
   .supportedVersionVector, .certificates, .certificateEntry, .clientCertificateTypeVector, .distinguishedNameVector,
   .distinguishedName, .extensionStructured, .opaqueLeaf, .protocolNameList, .protocolName, .responderIdList,
   .keyShareEntryVector, .keyShareEntry, .sctList, .sct]

/-- the classes whose `_parse` a class's `_parse` invokes (as the model composes them) -/
def Cls.calls : Cls → List Cls
  | .record => [.protocolVersion]
  | .alert | .changeCipherSpec | .applicationData => []
  | .handshakeVariant =>
    [.clientHello, .serverHello, .helloRetryRequest, .certificate, .serverKeyExchange, .certificateStatus,
     .serverHelloDone, .certificateRequest, .unmodelledHandshake]
  | .clientHello =>
    [.protocolVersion, .helloRandom, .sessionIdVector, .cipherSuiteVector, .compressionMethodVector, .extensionsClient]
  | .serverHello | .helloRetryRequest =>
    [.protocolVersion, .helloRandom, .sessionIdVector, .cipherSuite, .compressionMethod, .extensionsServer]
  | .certificate => [.certificates]
  | .certificateRequest => [.clientCertificateTypeVector, .codedVector, .distinguishedNameVector]
  | .serverKeyExchange | .certificateStatus | .serverHelloDone | .unmodelledHandshake => []
  | .protocolVersion | .helloRandom | .sessionIdVector | .cipherSuite | .compressionMethod => []
  | .cipherSuiteVector => [.cipherSuite, .codedItem]
  | .compressionMethodVector => [.compressionMethod, .codedItem]
  | .extensionsClient => [.extensionVariantClient, .extensionUnparsed]
  | .extensionsServer => [.extensionVariantServer, .extensionUnparsed]
  | .extensionVariantClient | .extensionVariantServer => [.extensionParsed, .extensionStructured, .extensionUnparsed]
  | .extensionParsed =>
    [.extensionType, .codedVector, .renegotiatedConnection, .supportedVersionVector, .protocolVersion]
  | .extensionStructured =>
    [.extensionType, .opaqueLeaf, .protocolNameList, .responderIdList, .keyShareEntryVector, .keyShareEntry,
     .codedItem, .codedVector, .sctList]
  | .extensionUnparsed => [.codedItem]
  | .extensionType => []
  | .codedVector => [.codedItem]
  | .codedItem | .renegotiatedConnection => []
  | .supportedVersionVector => [.protocolVersion, .codedItem]
  | .certificates => [.certificateEntry]
  | .certificateEntry => []
  | .clientCertificateTypeVector | .distinguishedName | .opaqueLeaf | .protocolName => []
  | .distinguishedNameVector => [.distinguishedName]
  | .protocolNameList => [.protocolName]
  | .responderIdList => [.opaqueLeaf]
  | .keyShareEntryVector => [.keyShareEntry]
  | .keyShareEntry => [.codedItem, .opaqueLeaf]
  | .sctList => [.sct]
  | .sct => [.opaqueLeaf, .codedItem]

/-- longest call chain starting at a class, computed with fuel -/
def Cls.depth : Nat → Cls → Nat
  | 0, _ => 0
  | fuel + 1, c => 1 + ((c.calls.map (Cls.depth fuel)).foldl max 0)

/-- a topological rank: every invoked class has a strictly smaller rank -/
def Cls.rank : Cls → Nat
  | .handshakeVariant => 7
  | .clientHello | .serverHello | .helloRetryRequest => 6
  | .extensionsClient | .extensionsServer => 5
  | .extensionVariantClient | .extensionVariantServer => 4
  | .extensionStructured => 3
  | .extensionParsed | .certificate | .certificateRequest | .keyShareEntryVector | .sctList => 2
  | .codedVector | .supportedVersionVector | .cipherSuiteVector | .compressionMethodVector | .certificates
  | .record | .extensionUnparsed | .distinguishedNameVector | .protocolNameList | .responderIdList
  | .keyShareEntry | .sct => 1
  | _ => 0

end Cp.Cost
