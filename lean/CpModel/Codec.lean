import CpModel.Prim
/-
  CpModel.Codec — a parsable/composable class as a pair of functions, and the combinators the
  classes of cryptoparser are assembled from.

  `parse` models `Class._parse(parsable)`: it sees the whole rest of the buffer and returns the
  object and the consumed length.  `compose` models `obj.compose()`; it can fail (size limits).
-/
namespace Cp

structure Codec (α : Type) where
  parse : Bytes → Except PErr (α × Nat)
  compose : α → Except PErr Bytes

namespace Codec

/-! ### the laws (each a `Prop` about a codec; proved per combinator in `CpProofs/Codec.lean`) -/

/-- compose then parse gives the value back and consumes exactly the composed bytes, whatever follows -/
def RoundTrip (c : Codec α) (wf : α → Prop) : Prop :=
  ∀ v, wf v → ∃ b, c.compose v = .ok b ∧ ∀ s, c.parse (b ++ s) = .ok (v, b.length)

/-- whatever the parser accepts lies in the constructible domain -/
def ParseWf (c : Codec α) (wf : α → Prop) : Prop :=
  ∀ b v n, c.parse b = .ok (v, n) → wf v

def LenBound (c : Codec α) : Prop := ∀ b v n, c.parse b = .ok (v, n) → n ≤ b.length
def Positive (c : Codec α) : Prop := ∀ b v n, c.parse b = .ok (v, n) → 0 < n

/-- the result depends only on the consumed bytes -/
def SelfDelim (c : Codec α) : Prop :=
  ∀ b v n, c.parse b = .ok (v, n) → ∀ s, c.parse (b.take n ++ s) = .ok (v, n)

/-- no exception outside the four documented parse errors -/
def NoCrash (c : Codec α) : Prop := ∀ b k, c.parse b ≠ .error (.crash k)

/-- every proper prefix of a composed value is rejected with not-enough-data and a missing count
between 1 and the number of bytes really missing -/
def PrefixReject (c : Codec α) (wf : α → Prop) : Prop :=
  ∀ v b, wf v → c.compose v = .ok b → ∀ k, k < b.length →
    ∃ m : Nat, c.parse (b.take k) = .error (.notEnough m) ∧ 1 ≤ m ∧ m ≤ b.length - k

/-! ### combinators -/

/-- fixed-width unsigned integer (`parse_numeric` / `compose_numeric`) -/
def num (bo : ByteOrder) (k : Nat) : Codec Nat where
  parse := parseNum bo k
  compose := fun v => composeNum bo k (v : Int)

/-- `parse_raw(name, n)` / `compose_raw` for a constant length -/
def rawFixed (n : Nat) : Codec Bytes where
  parse := parseRaw (n : Int)
  compose := fun v => if v.length = n then .ok v else .error (.crash "WrongLength")

/-- `parse_bytes(name, k)` / `compose_bytes(value, k)` -/
def bytesPrefixed (bo : ByteOrder) (k : Nat) : Codec Bytes where
  parse := parseBytes bo k
  compose := composeBytes bo k

/-- two fields one after the other, on one `ParserBinary` -/
def seq (a : Codec α) (b : Codec β) : Codec (α × β) where
  parse := fun bs => do
    let (x, n) ← a.parse bs
    let (y, m) ← b.parse (bs.drop n)
    pure ((x, y), n + m)
  compose := fun (x, y) => do
    let p ← a.compose x
    let q ← b.compose y
    pure (p ++ q)

/-- reinterpret the value (`cls(**parser)` on one side, attribute access on the other); the
constructor can reject (`f` returns an error: validators, converters) -/
def mapE (c : Codec α) (f : α → Except PErr β) (g : β → α) : Codec β where
  parse := fun bs => do
    let (x, n) ← c.parse bs
    let y ← f x
    pure (y, n)
  compose := fun y => c.compose (g y)

/-- a constant that must be present (`parse_numeric` + comparison → `InvalidValue`/`InvalidType`) -/
def guardE (c : Codec α) (ok : α → Bool) (err : PErr) : Codec α where
  parse := fun bs => do
    let (x, n) ← c.parse bs
    if ok x then pure (x, n) else .error err
  compose := c.compose

/-- `if len(parsable) < SIZE: raise NotEnoughData(SIZE - len(parsable))` in front of a parser -/
def minSize (n : Nat) (c : Codec α) : Codec α where
  parse := fun bs => if bs.length < n then .error (.notEnough ((n - bs.length : Nat) : Int)) else c.parse bs
  compose := c.compose

/-- a `k`-byte length prefix, then the inner class parsed with `parse_exact_size` on exactly the
declared slice: `header(payload length) + payload` framing where the payload must be consumed. -/
def lenPrefixedExact (bo : ByteOrder) (k : Nat) (c : Codec α) : Codec α where
  parse := fun bs => do
    let (body, n) ← parseBytes bo k bs
    let (x, m) ← c.parse body
    if m < body.length then .error (.tooMuch (m : Int)) else pure (x, n)
  compose := fun x => do
    let p ← c.compose x
    composeBytes bo k p

/-- a `k`-byte length prefix, then the inner class parsed with `parse_immutable` on the declared
slice, **ignoring** whatever the inner parser leaves unconsumed — the framing of TLS handshake
messages (`_parse_handshake_header` + a parser on `payload`). -/
def lenPrefixedLoose (bo : ByteOrder) (k : Nat) (c : Codec α) : Codec α where
  parse := fun bs => do
    let (body, n) ← parseBytes bo k bs
    let (x, _) ← c.parse body
    pure (x, n)
  compose := fun x => do
    let p ← c.compose x
    composeBytes bo k p

/-- A frame codec `F` delimits a payload (header + declared length); the class's own parser is then
run on the payload ONLY (a fresh `ParserBinary(payload)`), what it leaves unconsumed inside the
payload is ignored, and the consumed length is the frame's. -/
def framed (F : Codec Bytes) (inner : Codec α) : Codec α where
  parse := fun bs => do
    let (pl, total) ← F.parse bs
    let (v, _) ← inner.parse pl
    pure (v, total)
  compose := fun v => do
    let p ← inner.compose v
    F.compose p

/-- items of `_parse_parsable_derived_array` on a slice: parse items until the slice is exhausted.
Runs on fuel; `Positive item` is what makes fuel = slice length sufficient (a zero-length item
would loop forever in the code and is modelled as the crash `NonTermination`). -/
def parseItems (item : Bytes → Except PErr (α × Nat)) : Nat → Bytes → Except PErr (List α)
  | 0, b => if b.isEmpty then .ok [] else .error (.crash "NonTermination")
  | fuel + 1, b =>
    if b.isEmpty then .ok []
    else
      match item b with
      | .error e => .error e
      | .ok (x, n) =>
        if n == 0 then .error (.crash "NonTermination")
        else (parseItems item fuel (b.drop n)).map (x :: ·)

def composeItems (f : α → Except PErr Bytes) : List α → Except PErr Bytes
  | [] => .ok []
  | x :: xs => do
    let a ← f x
    let r ← composeItems f xs
    pure (a ++ r)

/-- `try primary; except InvalidValue: fallback` — one position of a vector with a fallback class -/
def orElseInvalid (a b : Bytes → Except PErr (α × Nat)) : Bytes → Except PErr (α × Nat) :=
  fun bs =>
    match a bs with
    | .error .invalidValue => b bs
    | r => r

/-- `VariantParsable._parse`: the first alternative that does not raise `InvalidType`;
exhaustion is `InvalidValue`. -/
def firstNotInvalidType : List (Bytes → Except PErr (α × Nat)) → Bytes → Except PErr (α × Nat)
  | [], _ => .error .invalidValue
  | p :: ps, bs =>
    match p bs with
    | .error .invalidType => firstNotInvalidType ps bs
    | r => r

end Codec

/-! ### entry points (`ParsableBaseNoABC`) -/

/-- `parse_immutable` -/
def parseImmutable (c : Codec α) (b : Bytes) : Except PErr (α × Nat) := c.parse b

/-- `parse_exact_size`: `TooMuchData(parsed_length)` when bytes are left over -/
def parseExact (c : Codec α) (b : Bytes) : Except PErr α := do
  let (v, n) ← c.parse b
  if b.length > n then .error (.tooMuch (n : Int)) else pure v

/-- `parse_mutable`: on success the first `n` bytes are deleted from the caller's buffer
(`del parsable[:n]`); on failure the buffer is untouched.  Returns the result and the buffer. -/
def parseMutable (c : Codec α) (b : Bytes) : Except PErr α × Bytes :=
  match c.parse b with
  | .ok (v, n) => (.ok v, b.drop n)
  | .error e => (.error e, b)

end Cp
