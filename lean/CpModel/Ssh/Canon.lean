import CpModel.Ssh.Msg
import CpModel.Ssh.Banner
import CpModel.Ssh.Cert
import CpModel.Tls.Canon
/-
  Canonical one-line rendering of SSH model values for the line protocol (no spaces); must equal
  `harness/canon_ssh.py` character for character.  A known name is `K<index>`, a `str` name
  `S<hex>`; text and bytes in hex (`-` when empty); `~` for `None`; integers in decimal.
-/
namespace Cp.Ssh
open Cp Cp.Tls

def cName : Name → String
  | .known i => s!"K{i}"
  | .other b => s!"S{hexOrDash b}"

def cNames (l : List Name) : String := cList (l.map cName)
def cTag (t : List Bytes) : String := "T" ++ ".".intercalate (t.map hexOrDash)
def cTags (l : List (List Bytes)) : String := cList (l.map cTag)
def cOptBytes : Option Bytes → String
  | none => "~"
  | some b => hexOrDash b

def cKexInit (k : KexInit) : String :=
  "SshKeyExchangeInit(" ++ ",".intercalate [hexOrDash k.cookie, cNames k.kex, cNames k.hostKey,
    cNames k.encC2S, cNames k.encS2C, cNames k.macC2S, cNames k.macS2C, cNames k.compC2S, cNames k.compS2C,
    cTags k.langC2S, cTags k.langS2C, cBool k.firstKexPacketFollows, toString k.reserved] ++ ")"

def cKeyParams : KeyParams → String
  | .dss p q g y => s!"{p},{q},{g},{y}"
  | .rsa e n => s!"{e},{n}"
  | .ecdsa c point =>
    let rest := point.drop 1
    let k := rest.length / 2
    s!"{Gen.Ssh.curveCanonical.getD c c},{natOfBE (rest.take k)},{natOfBE (rest.drop k)}"
  | .eddsa k => hexOrDash k

def cHostKey (k : HostKey) : String := s!"{k.cls}(K{k.algo},{cKeyParams k.params})"

def cMsg : Msg → String
  | .disconnect r d l => s!"SshDisconnectMessage({r},{hexOrDash d},{hexOrDash l})"
  | .unimplemented s => s!"SshUnimplementedMessage({s})"
  | .kexInit k => cKexInit k
  | .dhInit code e =>
    (if code == 32 then "SshDHGroupExchangeInit(" else "SshDHKeyExchangeInit(") ++ hexOrDash e ++ ")"
  | .dhReply code k f s =>
    (if code == 33 then "SshDHGroupExchangeReply(" else "SshDHKeyExchangeReply(") ++
      s!"{cHostKey k},{hexOrDash f},{hexOrDash s})"
  | .gexRequest a b c => s!"SshDHGroupExchangeRequest({a},{b},{c})"
  | .gexGroup p g => s!"SshDHGroupExchangeGroup({hexOrDash p},{hexOrDash g})"
  | .newKeys => "SshNewKeys()"

def cSoftware (s : SoftwareVersion) : String := s!"{s.cls}({cOptBytes s.text})"
def cBanner (b : Banner) : String :=
  s!"SshProtocolMessage({b.major},{b.minor},{cSoftware b.software},{cOptBytes b.comment})"

def cOpt : CertOpt → String
  | .noData i => s!"N{i}"
  | .forceCommand c => s!"F{hexOrDash c}"
  | .unparsed n d => s!"U{hexOrDash n}:{hexOrDash d}"

def cOptNat : Option Nat → String
  | none => "~"
  | some n => toString n

def cCertKey (k : CertKey) : String :=
  let c := k.cert
  s!"{k.key.cls}(K{k.key.algo},{cKeyParams k.key.params}," ++ ",".intercalate [hexOrDash c.nonce, toString c.serial,
    toString (Gen.SshCertType.codes.getD c.certType 0), hexOrDash c.keyId, cList (c.principals.map hexOrDash),
    toString c.validAfter, cOptNat c.validBefore, cList (c.criticalOptions.map cOpt), cList (c.extensions.map cOpt),
    hexOrDash c.reserved, cHostKey c.signatureKey, s!"K{c.signatureType}", hexOrDash c.signatureData] ++ ")"

def certOnly (cls : String) : DrvClass := mkClass cls (parseCertClass cls) composeCert cCertKey

def msgOnly (cls : String) : DrvClass := mkClass cls (parseMsgClass cls) composeMsg cMsg
def nameListClass (cls : String) (codes : List Bytes) : DrvClass :=
  mkClass cls (parseNameList codes) (composeNameList codes) cNames
def keyOnly (cls : String) : DrvClass :=
  mkClass cls (parseHostKeyClass cls (acceptedOf cls)) composeHostKey cHostKey

def sshClasses : List DrvClass := [
  nameListClass "SshKexAlgorithmVector" Gen.Ssh.SshKexAlgorithm,
  nameListClass "SshHostKeyAlgorithmVector" Gen.Ssh.SshHostKeyAlgorithm,
  nameListClass "SshEncryptionAlgorithmVector" Gen.Ssh.SshEncryptionAlgorithm,
  nameListClass "SshMacAlgorithmVector" Gen.Ssh.SshMacAlgorithm,
  nameListClass "SshCompressionAlgorithmVector" Gen.Ssh.SshCompressionAlgorithm,
  mkClass "SshLanguageVector" parseLanguageList composeLanguageList cTags,
  msgOnly "SshKeyExchangeInit", msgOnly "SshDisconnectMessage", msgOnly "SshUnimplementedMessage",
  msgOnly "SshDHKeyExchangeInit", msgOnly "SshDHGroupExchangeInit", msgOnly "SshDHKeyExchangeReply",
  msgOnly "SshDHGroupExchangeReply", msgOnly "SshDHGroupExchangeRequest", msgOnly "SshDHGroupExchangeGroup",
  msgOnly "SshNewKeys",
  mkClass "SshMessageVariantInit" (parseMsgVariant Gen.Ssh.SshMessageVariantInit) composeMsg cMsg,
  mkClass "SshMessageVariantKexDH" (parseMsgVariant Gen.Ssh.SshMessageVariantKexDH) composeMsg cMsg,
  mkClass "SshMessageVariantKexDHGroup" (parseMsgVariant Gen.Ssh.SshMessageVariantKexDHGroup) composeMsg cMsg,
  mkClass "SshRecordInit" recordInit.parse recordInit.compose (fun m => s!"SshRecordInit({cMsg m})"),
  mkClass "SshRecordKexDH" recordKexDH.parse recordKexDH.compose (fun m => s!"SshRecordKexDH({cMsg m})"),
  mkClass "SshRecordKexDHGroup" recordKexDHGroup.parse recordKexDHGroup.compose
    (fun m => s!"SshRecordKexDHGroup({cMsg m})"),
  mkClass "SshProtocolVersion" parseProtocolVersion composeProtocolVersion (fun v => s!"SshProtocolVersion({v.1},{v.2})"),
  mkClass "SshProtocolMessage" parseBanner composeBanner cBanner,
  keyOnly "SshHostKeyRSA", keyOnly "SshHostKeyDSS", keyOnly "SshHostKeyECDSA", keyOnly "SshHostKeyEDDSA",
  mkClass "SshHostPublicKeyVariant" parseHostKeyVariant composeHostKey cHostKey,
  certOnly "SshHostCertificateV01RSA", certOnly "SshHostCertificateV01DSS", certOnly "SshHostCertificateV01ECDSA",
  certOnly "SshHostCertificateV01EDDSA",
  mkClass "SshCertCriticalOptionVector" (parseVecItems criticalParam (parseOpt Gen.Ssh.certCriticalOptionVariants) optSize)
    (composeVecItems criticalParam composeOpt) (fun xs => cList (xs.map cOpt)),
  mkClass "SshCertExtensionVector" (parseVecItems extensionParam (parseOpt Gen.Ssh.certExtensionVariants) optSize)
    (composeVecItems extensionParam composeOpt) (fun xs => cList (xs.map cOpt)),
  mkClass "SshCertValidPrincipals" (parseVecItems principalsParam parseAsciiString
      (fun s => (composeAsciiString s).map (·.length)))
    (composeVecItems principalsParam composeAsciiString) (fun xs => cList (xs.map hexOrDash))
]

end Cp.Ssh
