import CpModel.Ssh.NameList
/-
  CpModel.Ssh.Key — host public keys (`cryptoparser/ssh/key.py`): `SshHostKeyRSA/DSS/ECDSA/EDDSA`
  and `SshHostPublicKeyVariant`.  The key material is carried as the numbers / byte strings read
  from the wire; the `asn1crypto` objects the code wraps them in are outside the model
  (`SshX509Certificate*` and the v00 certificates are `UNMODELLED`).
-/
namespace Cp.Ssh
open Cp

def unmodelled : PErr := .crash "UNMODELLED"

/-- `ParserBinary.parse_string(name, 4, 'ascii')`: length-prefixed bytes that must decode as ASCII -/
def parseAsciiString (bs : Bytes) : Except PErr (Bytes × Nat) := do
  let (v, n) ← parseBytes .network 4 bs
  if isAscii v then pure (v, n) else .error .invalidValue

/-- `compose_string(value, 'ascii', 4)` (text is ASCII in the model) -/
def composeAsciiString (v : Bytes) : Except PErr Bytes := composeBytes .network 4 v

inductive KeyParams where
  | dss (p q g y : Int)
  | rsa (e n : Int)
  | ecdsa (curve : Nat) (point : Bytes)
  | eddsa (key : Bytes)
deriving Repr, DecidableEq

inductive KeyKind where
  | dss | rsa | ecdsa | eddsa
deriving Repr, DecidableEq

/-- the plain host-key classes inside the model -/
def keyKindOf : String → Option KeyKind
  | "SshHostKeyDSS" => some .dss
  | "SshHostKeyRSA" => some .rsa
  | "SshHostKeyECDSA" => some .ecdsa
  | "SshHostKeyEDDSA" => some .eddsa
  | _ => none

/-- An EC point as `asn1crypto` reads it (`ECPointBitString.to_coords`): `04 ‖ X ‖ Y`, the rest split in
the middle; anything else, and a zero coordinate (`math.log(0)` inside `from_coords`), is a
`ValueError` the key parser translates to `InvalidValue` (repaired: it used to escape).  The
conversion back (`from_coords`, floating-point logarithms) is inside the model only when it provably
returns the same bytes: an even number of coordinate bytes and one coordinate with a leading byte
of at least 2; the remaining points (where the float rounding decides between success and an
`OverflowError`, also an `InvalidValue` now) are `UNMODELLED`. -/
def ecPointStatus (point : Bytes) : Except PErr Unit :=
  match point with
  | [] => .error .invalidValue
  | f :: rest =>
    if f != 4 then .error .invalidValue
    else
      let k := rest.length / 2
      let x := rest.take k
      let y := rest.drop k
      if natOfBE x == 0 || natOfBE y == 0 then .error .invalidValue
      else if rest.length % 2 == 0 && ((x.headD 0).toNat ≥ 2 || (y.headD 0).toNat ≥ 2) then .ok ()
      else .error unmodelled

/-- `_parse_host_key(parser)` of the four plain key families, on the buffer after the algorithm name -/
def parseKeyParams (kind : KeyKind) (rest : Bytes) : Except PErr (KeyParams × Nat) :=
  match kind with
  | .dss => do
    let (p, n1) ← parseSshMpint rest
    let (q, n2) ← parseSshMpint (rest.drop n1)
    let (g, n3) ← parseSshMpint (rest.drop (n1 + n2))
    let (y, n4) ← parseSshMpint (rest.drop (n1 + n2 + n3))
    pure (.dss p q g y, n1 + n2 + n3 + n4)
  | .rsa => do
    let (e, n1) ← parseSshMpint rest
    let (n, n2) ← parseSshMpint (rest.drop n1)
    pure (.rsa e n, n1 + n2)
  | .ecdsa => do
    let (name, n1) ← parseAsciiString rest
    match findName name Gen.Ssh.SshEllipticCurveIdentifier with
    | none => .error .invalidValue
    | some c =>
      let (point, n2) ← parseBytes .network 4 (rest.drop n1)
      ecPointStatus point
      pure (.ecdsa c point, n1 + n2)
  | .eddsa => do
    let (k, n1) ← parseBytes .network 4 rest
    pure (.eddsa k, n1)

def composeKeyParams : KeyParams → Except PErr Bytes
  | .dss p q g y => do
    let a ← composeSshMpint p
    let b ← composeSshMpint q
    let c ← composeSshMpint g
    let d ← composeSshMpint y
    pure (a ++ b ++ c ++ d)
  | .rsa e n => do
    let a ← composeSshMpint e
    let b ← composeSshMpint n
    pure (a ++ b)
  | .ecdsa c point =>
    match Gen.Ssh.curveCanonical[c]? >>= (Gen.Ssh.SshEllipticCurveIdentifier[·]?) with
    | none => .error (.crash "NotImplementedError")
    | some name => do
      let a ← composeAsciiString name
      let b ← composeBytes .network 4 point
      pure (a ++ b)
  | .eddsa k => composeBytes .network 4 k

structure HostKey where
  cls : String
  algo : Nat            -- index into `SshHostKeyAlgorithm`
  params : KeyParams
deriving Repr, DecidableEq

/-- `SshPublicKeyBase._parse_host_key_algorithm` up to (not including) the membership test: the index
of the algorithm named on the wire and the bytes consumed -/
def parseKeyAlgorithm (bs : Bytes) : Except PErr (Nat × Nat) :=
  if bs.length < 4 then .error (.notEnough ((4 - bs.length : Nat) : Int))
  else do
    let (name, n) ← parseAsciiString bs
    match findName name Gen.Ssh.SshHostKeyAlgorithm with
    | none => .error .invalidValue
    | some i => pure (i, n)

/-- `SshHostKeyParserBase._parse` of one class -/
def parseHostKeyClass (cls : String) (accepted : List Nat) (bs : Bytes) : Except PErr (HostKey × Nat) := do
  let (algo, n) ← parseKeyAlgorithm bs
  if !accepted.contains algo then .error .invalidType
  else
    match keyKindOf cls with
    | none => .error unmodelled
    | some kind =>
      let (params, m) ← parseKeyParams kind (bs.drop n)
      pure (⟨cls, algo, params⟩, n + m)

def acceptedOf (cls : String) : List Nat :=
  match Gen.Ssh.hostKeyVariants.find? (·.1 == cls) with
  | some (_, l) => l
  | none => []

/-- `SshHostPublicKeyVariant._parse`: the classes in the regenerated order, the first that does not
raise `InvalidType`; none → `InvalidValue`. -/
def parseHostKeyVariantAux (bs : Bytes) : List (String × List Nat) → Except PErr (HostKey × Nat)
  | [] => .error .invalidValue
  | (cls, accepted) :: more =>
    match parseHostKeyClass cls accepted bs with
    | .error .invalidType => parseHostKeyVariantAux bs more
    | r => r

def parseHostKeyVariant (bs : Bytes) : Except PErr (HostKey × Nat) :=
  parseHostKeyVariantAux bs Gen.Ssh.hostKeyVariants

/-- `SshHostKeyParserBase.compose`: algorithm name, then the parameters -/
def composeHostKey (k : HostKey) : Except PErr Bytes :=
  match Gen.Ssh.SshHostKeyAlgorithm[k.algo]? with
  | none => .error (.crash "AttributeError")
  | some name => do
    let a ← composeAsciiString name
    let b ← composeKeyParams k.params
    pure (a ++ b)

/-- `key_bytes` of the plain keys: the composed blob (RFC 4253 §6.6) -/
def keyBytes (k : HostKey) : Except PErr Bytes := composeHostKey k

def hostKeyCodec : Codec HostKey := ⟨parseHostKeyVariant, composeHostKey⟩

/-- `parse_parsable(name, SshHostPublicKeyVariant, 4)`: 4-byte length, the declared slice must be
present (`NotEnoughData(4 + L - rest)`) and must be consumed exactly by the key parser. -/
def parseHostKeyPrefixed (bs : Bytes) : Except PErr (HostKey × Nat) := do
  let (len, _) ← parseNum .network 4 bs
  if bs.length < 4 + len then .error (.notEnough ((4 + len - bs.length : Nat) : Int))
  else
    let slice := (bs.drop 4).take len
    let (k, m) ← parseHostKeyVariant slice
    if slice.length > m then .error (.tooMuch (m : Int)) else pure (k, 4 + len)

def composeHostKeyPrefixed (k : HostKey) : Except PErr Bytes := do
  let b ← composeHostKey k
  composeBytes .network 4 b

end Cp.Ssh
