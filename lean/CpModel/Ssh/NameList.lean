import CpModel.Codec
import CpModel.Gen.Ssh
/-
  CpModel.Ssh.NameList — SSH name-lists (`VectorString` with `fallback_class=str`, RFC 4251 §5
  `name-list`) and language-tag lists, as `cryptoparser/common/base.py` (`VectorString._parse`,
  `compose`) and `cryptoparser/common/parse.py` (`ParserText._parse_string_array`,
  `ComposerText.compose_parsable_array`) implement them.

  All text is carried as its ASCII bytes: a Python `str` obtained by decoding `ascii` is the byte
  string itself, and a byte ≥ 0x80 is the `UnicodeDecodeError` the code turns into `InvalidValue`.
-/
namespace Cp.Ssh
open Cp

def comma : UInt8 := 0x2c
def hyphen : UInt8 := 0x2d

def isAscii (b : Bytes) : Bool := b.all fun x => decide (x.toNat < 128)

/-- `ParserText._parse_string_array(name, sep, item_class=…, fallback_class=…)` on the whole buffer of
a fresh `ParserText`, read functionally.  `cur` is the item being collected (reversed; `none` =
an item has to start here).  The loop of the code: item up to the next separator or the end
(`_parse_string_until_separator(…, may_end=True)`); an empty item is `InvalidValue`; the end of the
buffer after an item, or after ONE separator, ends the array (a trailing separator is accepted);
a second separator is `InvalidValue` (`_check_separators(…, 1, 1)`). -/
def splitAux (sep : UInt8) : Option Bytes → Bytes → Except PErr (List Bytes)
  | none, [] => .error .invalidValue
  | some cur, [] => .ok [cur.reverse]
  | none, x :: xs => if x = sep then .error .invalidValue else splitAux sep (some [x]) xs
  | some cur, x :: xs =>
    if x = sep then
      (if xs.isEmpty then .ok [cur.reverse] else (splitAux sep none xs).map (cur.reverse :: ·))
    else splitAux sep (some (x :: cur)) xs

/-- items of a separated text; every byte must be ASCII (`six.ensure_text(…, 'ascii')` of each item) -/
def splitItems (sep : UInt8) (body : Bytes) : Except PErr (List Bytes) :=
  if !isAscii body then .error .invalidValue else splitAux sep none body

/-- `bytearray(sep).join(items)` -/
def joinItems (sep : UInt8) : List Bytes → Bytes
  | [] => []
  | [a] => a
  | a :: b :: rest => a ++ sep :: joinItems sep (b :: rest)

/-- `CryptoDataEnumCodedBase.from_code`: index of the first member whose code equals the text -/
def findName (b : Bytes) : List Bytes → Option Nat
  | [] => none
  | c :: cs => if c = b then some 0 else (findName b cs).map (· + 1)

/-- One name of a name-list: a member of the item enumeration (by index in the regenerated table) or,
through the `str` fallback, the text itself. -/
inductive Name where
  | known (idx : Nat)
  | other (text : Bytes)
deriving Repr, DecidableEq

/-- `_apply_item_class`: `item_class.from_code(text)`; on `InvalidValue` the fallback `str` -/
def classify (codes : List Bytes) (b : Bytes) : Name :=
  match findName b codes with
  | some i => .known i
  | none => .other b

/-- the text a name is composed to: `item.value.code` / the string -/
def Name.text (codes : List Bytes) : Name → Option Bytes
  | .known i => codes[i]?
  | .other b => some b

/-- `SshNameListBase._parse` and the head of `VectorString._parse`: the 4-byte length is read from
`parsable[:4]`; the declared body must be there (`NotEnoughData(4 + length - len)`, repaired: a short
body used to be accepted) and must not end in a comma (`InvalidValue`, repaired: one trailing
separator used to be tolerated).  Returns the body `parsable[4 : 4 + length]` and the consumed
length — all of the body is consumed. -/
def nameListBody (bs : Bytes) : Except PErr (Bytes × Nat) := do
  let (len, n) ← parseNum .network 4 (bs.take 4)
  if bs.length < 4 + len then .error (.notEnough ((4 + len - bs.length : Nat) : Int))
  else
    let body := (bs.drop 4).take len
    if body.getLast? == some comma then .error .invalidValue else pure (body, n + body.length)

/-- `VectorString._parse` for an `SshAlgorithmVector`: length 0 is the empty list; otherwise the
body is split at commas.  The constructor's size check (`0 … 2^32-1`) cannot fail: the item sizes
sum to at most the body length. -/
def parseNameList (codes : List Bytes) (bs : Bytes) : Except PErr (List Name × Nat) := do
  let (body, n) ← nameListBody bs
  if body.isEmpty then pure ([], n)
  else
    let items ← splitItems comma body
    pure (items.map (classify codes), n)

def nameTexts (codes : List Bytes) : List Name → Except PErr (List Bytes)
  | [] => .ok []
  | x :: xs =>
    match x.text codes with
    | none => .error (.crash "AttributeError")
    | some t => (nameTexts codes xs).map (t :: ·)

/-- `VectorString.compose` -/
def composeNameList (codes : List Bytes) (names : List Name) : Except PErr Bytes := do
  let items ← nameTexts codes names
  let body := joinItems comma items
  let h ← composeNum .network 4 (body.length : Int)
  pure (h ++ body)

def nameListCodec (codes : List Bytes) : Codec (List Name) := ⟨parseNameList codes, composeNameList codes⟩

/-! ### language tags (`cryptoparser/common/classes.py`) -/

def isAlpha (x : UInt8) : Bool := (65 ≤ x.toNat && x.toNat ≤ 90) || (97 ≤ x.toNat && x.toNat ≤ 122)
def isAlnum (x : UInt8) : Bool := isAlpha x || (48 ≤ x.toNat && x.toNat ≤ 57)

/-- `LanguageTag.parse_exact_size(item)`: sub-tags separated by `-`; the constructor wants a primary
sub-tag of 1–8 letters and further sub-tags of 1–8 letters or digits. -/
def parseLanguageTag (item : Bytes) : Except PErr (List Bytes) := do
  let tags ← splitItems hyphen item
  match tags with
  | [] => .error (.crash "IndexError")
  | p :: rest =>
    if p.length > 8 || !p.all isAlpha then .error .invalidValue
    else if rest.any (fun t => t.length > 8 || !t.all isAlnum) then .error .invalidValue
    else pure tags

def parseLanguageTags : List Bytes → Except PErr (List (List Bytes))
  | [] => .ok []
  | x :: xs => do
    let t ← parseLanguageTag x
    let r ← parseLanguageTags xs
    pure (t :: r)

/-- `SshLanguageVector._parse` (`item_class=LanguageTag`, no fallback) -/
def parseLanguageList (bs : Bytes) : Except PErr (List (List Bytes) × Nat) := do
  let (body, n) ← nameListBody bs
  if body.isEmpty then pure ([], n)
  else
    let items ← splitItems comma body
    let tags ← parseLanguageTags items
    pure (tags, n)

/-- `LanguageTag.compose` -/
def composeLanguageTag (tag : List Bytes) : Except PErr Bytes :=
  match tag with
  | [] => .error (.crash "TypeError")
  | p :: rest => .ok (joinItems hyphen (p :: rest))

def composeLanguageTags : List (List Bytes) → Except PErr (List Bytes)
  | [] => .ok []
  | t :: ts => do
    let a ← composeLanguageTag t
    let r ← composeLanguageTags ts
    pure (a :: r)

def composeLanguageList (tags : List (List Bytes)) : Except PErr Bytes := do
  let items ← composeLanguageTags tags
  let body := joinItems comma items
  let h ← composeNum .network 4 (body.length : Int)
  pure (h ++ body)

def languageListCodec : Codec (List (List Bytes)) := ⟨parseLanguageList, composeLanguageList⟩

end Cp.Ssh
