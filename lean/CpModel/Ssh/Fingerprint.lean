import CpModel.Ssh.Key
/-
  CpModel.Ssh.Fingerprint — `SshPublicKeyBase._fingerprint`, `fingerprints`, `host_key_asdict`
  (`known_hosts`).  The digest function is a parameter; `binascii.hexlify`, `textwrap.wrap(…, 2)` and
  `base64.b64encode` are modelled by what they compute.
-/
namespace Cp.Ssh
open Cp

/-- the base-64 alphabet as the table `binascii` indexes:
"ABCDEFGHIJKLMNOPQRSTUVWXYZabcdefghijklmnopqrstuvwxyz0123456789+/" -/
def b64Table : Bytes :=
  [65, 66, 67, 68, 69, 70, 71, 72, 73, 74, 75, 76, 77, 78, 79, 80, 81, 82, 83, 84, 85, 86, 87, 88, 89, 90,
   97, 98, 99, 100, 101, 102, 103, 104, 105, 106, 107, 108, 109, 110, 111, 112, 113, 114, 115, 116, 117, 118,
   119, 120, 121, 122, 48, 49, 50, 51, 52, 53, 54, 55, 56, 57, 43, 47]

def b64At (i : Nat) : UInt8 := b64Table.getD i 0

/-- `base64.b64encode` (`binascii.b2a_base64`): six bits at a time, most significant first, through
the table; `=` padding to a multiple of four characters -/
def b64encode : Bytes → Bytes
  | [] => []
  | [a] => [b64At (a.toNat / 4), b64At (a.toNat % 4 * 16), 61, 61]
  | [a, b] =>
    [b64At (a.toNat / 4), b64At (a.toNat % 4 * 16 + b.toNat / 16), b64At (b.toNat % 16 * 4), 61]
  | a :: b :: c :: rest =>
    b64At (a.toNat / 4) :: b64At (a.toNat % 4 * 16 + b.toNat / 16) ::
      b64At (b.toNat % 16 * 4 + c.toNat / 64) :: b64At (c.toNat % 64) :: b64encode rest

/-- "0123456789abcdef" -/
def hexDigitLower (n : Nat) : UInt8 :=
  ([48, 49, 50, 51, 52, 53, 54, 55, 56, 57, 97, 98, 99, 100, 101, 102] : Bytes).getD n 0

/-- `binascii.hexlify` -/
def hexlify (b : Bytes) : Bytes := b.flatMap fun x => [hexDigitLower (x.toNat / 16), hexDigitLower (x.toNat % 16)]

/-- `textwrap.wrap(text, 2)` on a string of hex digits: pieces of two characters -/
def wrap2 : Bytes → List Bytes
  | [] => []
  | [a] => [[a]]
  | a :: b :: rest => [a, b] :: wrap2 rest

inductive FpKind where
  | sha256 | sha1 | md5
deriving Repr, DecidableEq

def FpKind.label : FpKind → Bytes
  | .sha256 => [83, 72, 65, 50, 53, 54]     -- "SHA256"
  | .sha1 => [83, 72, 65, 49]               -- "SHA1"
  | .md5 => [77, 68, 53]                    -- "MD5"

/-- the text `_fingerprint` builds from a digest: `':'.join((prefix, …))` -/
def renderFingerprint (kind : FpKind) (digest : Bytes) : Bytes :=
  let text := if kind = .md5 then joinItems 0x3a (wrap2 (hexlify digest)) else b64encode digest
  kind.label ++ 0x3a :: text

/-- `_fingerprint(hash_type, key_bytes, prefix)` for the digest function `H` -/
def fingerprint (H : Bytes → Bytes) (kind : FpKind) (k : HostKey) : Except PErr Bytes :=
  (keyBytes k).map fun blob => renderFingerprint kind (H blob)

/-- `known_hosts` of `host_key_asdict` -/
def knownHosts (k : HostKey) : Except PErr Bytes := (keyBytes k).map b64encode

end Cp.Ssh
