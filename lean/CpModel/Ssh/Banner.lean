import CpModel.Enum
import CpModel.Ssh.NameList
/-
  CpModel.Ssh.Banner — the identification string (`SshProtocolMessage`, RFC 4253 §4.2) with
  `SshProtocolVersion` and the software-version classes of `cryptoparser/ssh/version.py`, and as
  much of `ParserText` as they use.  Text is ASCII bytes.
-/
namespace Cp.Ssh
open Cp

def isDigit (x : UInt8) : Bool := 48 ≤ x.toNat && x.toNat ≤ 57

/-- `int(b'…')` of a run of ASCII digits -/
def natOfDigits (ds : Bytes) : Nat := ds.foldl (fun a d => a * 10 + (d.toNat - 48)) 0

/-- `'{:d}'.format(n)` as ASCII -/
def digitsOfNat (n : Nat) : Bytes := (Nat.toDigits 10 n).map fun c => UInt8.ofNat c.toNat

/-- `ParserText.parse_numeric(name)`: the longest run of digits, at least one (`InvalidValue`);
CPython refuses to convert more than 4300 digits — a `ValueError` the parser translates to
`InvalidValue` (repaired: it used to escape). -/
def parseTextNumeric (bs : Bytes) : Except PErr (Nat × Nat) :=
  let ds := bs.takeWhile isDigit
  if ds.isEmpty then .error .invalidValue
  else if ds.length > 4300 then .error .invalidValue
  else .ok (natOfDigits ds, ds.length)

/-- `parse_separator(sep)` with the defaults `min_length=1, max_length=None`: one OR MORE -/
def parseSeparators (sep : UInt8) (bs : Bytes) : Except PErr Nat :=
  let k := (bs.takeWhile (· == sep)).length
  if k < 1 then .error .invalidValue else .ok k

/-- `SshProtocolVersion._parse`: `major`, dots, `minor`; then the constructor, whose converter
`SshVersion(major)` raises a bare `ValueError` for anything but 1 and 2. -/
def parseProtocolVersion (bs : Bytes) : Except PErr ((Nat × Nat) × Nat) := do
  let (major, n1) ← parseTextNumeric bs
  let n2 ← parseSeparators 0x2e (bs.drop n1)
  let (minor, n3) ← parseTextNumeric (bs.drop (n1 + n2))
  if !(Gen.SshVersion.memberCodes.contains major) then .error (.crash "ValueError")
  else pure ((major, minor), n1 + n2 + n3)

def composeProtocolVersion (v : Nat × Nat) : Except PErr Bytes :=
  .ok (digitsOfNat v.1 ++ [0x2e] ++ digitsOfNat v.2)

/-- `SshSoftwareVersionUnparsed` (`text` = `raw`) or one of the vendor classes (`text` = `version`) -/
structure SoftwareVersion where
  cls : String
  text : Option Bytes
deriving Repr, DecidableEq

/-- `SshSoftwareVersionParsedBase._parse` for one vendor class on the software-version token -/
def parseVendor (cls : String) (vendor sep : Bytes) (sv : Bytes) : Except PErr SoftwareVersion :=
  match sep with
  | [] =>
    -- parse_string_by_length('vendor'): at least one byte
    if sv.isEmpty then .error (.notEnough 1)
    else if sv != vendor then .error .invalidType
    else .ok ⟨cls, none⟩
  | s :: _ =>
    let v := sv.takeWhile (· != s)
    if v != vendor then .error .invalidType
    else
      let rest := sv.drop v.length
      if rest.isEmpty then .ok ⟨cls, none⟩
      else
        let version := rest.dropWhile (· == s)
        if version.isEmpty then .error (.notEnough 1) else .ok ⟨cls, some version⟩

def parseVendorVariants (sv : Bytes) : List (String × Bytes × Bytes) → Except PErr SoftwareVersion
  | [] => .error .invalidValue
  | (cls, vendor, sep) :: more =>
    match parseVendor cls vendor sep sv with
    | .error .invalidType => parseVendorVariants sv more
    | r => r

/-- `SshSoftwareVersionParsedVariant`, on `InvalidValue` `SshSoftwareVersionUnparsed` (whose validator
rejects CR, LF and blanks) -/
def parseSoftwareVersion (sv : Bytes) : Except PErr SoftwareVersion :=
  match parseVendorVariants sv Gen.Ssh.softwareVersionVariants with
  | .error .invalidValue =>
    if sv.any (fun c => c == 0x0d || c == 0x0a || c == 0x20) then .error .invalidValue
    else .ok ⟨"SshSoftwareVersionUnparsed", some sv⟩
  | r => r

def composeSoftwareVersion (s : SoftwareVersion) : Except PErr Bytes :=
  if s.cls == "SshSoftwareVersionUnparsed" then
    match s.text with
    | some raw => .ok raw
    | none => .error (.crash "TypeError")
  else
    match Gen.Ssh.softwareVersionVariants.find? (·.1 == s.cls) with
    | none => .error unmodelledBanner
    | some (_, vendor, sep) =>
      match s.text with
      | none => .ok vendor
      | some v => if sep.isEmpty then .ok (vendor ++ "None".toUTF8.toList ++ v) else .ok (vendor ++ sep ++ v)
where unmodelledBanner : PErr := .crash "UNMODELLED"

/-- `str.split(' ')` -/
def splitOnSpace : Bytes → List Bytes
  | [] => [[]]
  | x :: xs =>
    match splitOnSpace xs with
    | [] => [[x]]
    | p :: ps => if x == 0x20 then [] :: p :: ps else (x :: p) :: ps

structure Banner where
  major : Nat
  minor : Nat
  software : SoftwareVersion
  comment : Option Bytes
deriving Repr, DecidableEq

def ssh : Bytes := [0x53, 0x53, 0x48]

/-- `parse_string('separator', '-')`: exactly that byte, anything else (also the end) is `InvalidValue` -/
def expectByte (c : UInt8) (bs : Bytes) : Except PErr Unit :=
  match bs with
  | x :: _ => if x == c then .ok () else .error .invalidValue
  | [] => .error .invalidValue

/-- the text between the second `-` and the line feed: `split(' ')`, a trailing CR of the last
piece removed, the first piece is the software version, the rest — joined again — the comment -/
def bannerLine (line : Bytes) : Except PErr (SoftwareVersion × Option Bytes) :=
  let pieces := splitOnSpace line
  let last := pieces.getLastD []
  -- `pieces[-1].endswith('\r')` (repaired: `pieces[-1][-1]` was an `IndexError` on an empty last piece)
  let last' := if last.getLast? == some 0x0d then last.dropLast else last
  let pieces' := pieces.dropLast ++ [last']
  match parseSoftwareVersion (pieces'.headD []) with
  | .error e => .error e
  | .ok sw => .ok (sw, if pieces'.length > 1 then some (joinItems 0x20 (pieces'.drop 1)) else none)

/-- `carriage_return_missing`: the last piece of the line does not end in CR -/
def crMissing (line : Bytes) : Bool := ((splitOnSpace line).getLastD []).getLast? != some 0x0d

/-- `parse_parsable('protocol_version', SshProtocolVersion)` inside `SshProtocolMessage._parse`: the
bare `ValueError` of `SshVersion(major)` is translated to `InvalidValue` here (repaired);
`SshProtocolVersion` parsed on its own still raises it -/
def bannerVersion (bs : Bytes) : Except PErr ((Nat × Nat) × Nat) :=
  match parseProtocolVersion bs with
  | .error (.crash _) => .error .invalidValue
  | r => r

/-- `identification_string_length`: the consumed length, one more when the CR has to be added -/
def composedLength (n : Nat) (line : Bytes) : Nat := if crMissing line then n + 1 else n

/-- the end of `SshProtocolMessage._parse`, on the line between the second `-` and the first line
feed: software version and comment; `parse_string('separator', '\n')` consumes exactly ONE line feed
(repaired: `parse_separator` swallowed every line feed that followed); the 255-byte limit applies to
the string as it is composed, i.e. terminated by CR LF (repaired); then the constructor's comment
validator -/
def bannerFinish (major minor nv : Nat) (line : Bytes) : Except PErr (Banner × Nat) := do
  let (sw, comment) ← bannerLine line
  let n := 5 + nv + line.length + 1
  if composedLength n line > 255 then .error (.tooMuch ((composedLength n line - 255 : Nat) : Int))
  else if (comment.getD []).any (fun c => c == 0x0d || c == 0x0a) then .error .invalidValue
  else pure (⟨major, minor, sw, comment⟩, n)

/-- `SshProtocolMessage._parse` -/
def parseBanner (bs : Bytes) : Except PErr (Banner × Nat) :=
  if bs.length < 3 then .error (.notEnough ((3 - bs.length : Nat) : Int))
  else if bs.take 3 != ssh then .error .invalidValue
  else do
    expectByte 0x2d (bs.drop 3)
    let ((major, minor), nv) ← bannerVersion (bs.drop 4)
    expectByte 0x2d (bs.drop (4 + nv))
    let rest := bs.drop (5 + nv)
    let line := rest.takeWhile (· != 0x0a)
    if line.length == rest.length then .error .invalidValue       -- no LF at all
    else if !isAscii line then .error .invalidValue
    else bannerFinish major minor nv line

/-- `SshProtocolMessage.compose` -/
def composeBanner (b : Banner) : Except PErr Bytes := do
  let v ← composeProtocolVersion (b.major, b.minor)
  let s ← composeSoftwareVersion b.software
  let c := match b.comment with
    | none => []
    | some t => 0x20 :: t
  let out := ssh ++ [0x2d] ++ v ++ [0x2d] ++ s ++ c ++ [0x0d, 0x0a]
  -- repaired: more than the 255 bytes of RFC 4253 §4.2 is `TooMuchData`
  if out.length > 255 then .error (.tooMuch ((out.length - 255 : Nat) : Int)) else pure out

def bannerCodec : Codec Banner := ⟨parseBanner, composeBanner⟩

end Cp.Ssh
