import CpModel.Enum
import CpModel.Ssh.Key
/-
  CpModel.Ssh.Msg — SSH transport messages and the binary packet
  (`cryptoparser/ssh/subprotocol.py`, `cryptoparser/ssh/record.py`), transcribed `_parse`/`compose`
  by `_parse`/`compose`, quirks included.  Classes outside the model answer `crash "UNMODELLED"`.
-/
namespace Cp.Ssh
open Cp Cp.Codec

/-! ### small field codecs -/

/-- `SshMessageBase._parse_header` / `_compose_header` for the class whose code is `code`:
`parse_numeric('message_code', 1, SshMessageCode)` (`ValueError` → `InvalidValue`), another
message's code is `InvalidType`. -/
def msgCodeCodec (code : Nat) : Codec Unit where
  parse := fun bs => do
    let (c, n) ← parseIntEnum Gen.SshMessageCode.memberCodes 1 bs
    if c != code then .error .invalidType else pure ((), n)
  compose := fun _ => composeNum .network 1 (code : Int)

/-- `parse_raw(name, n)` / `compose_raw(value)` — the composer does not check the length -/
def rawN (n : Nat) : Codec Bytes where
  parse := parseRaw (n : Int)
  compose := fun v => .ok v

/-- `parse_numeric(name, 1, bool)` / `compose_numeric(1 if value else 0, 1)` -/
def boolCodec : Codec Bool where
  parse := fun bs => do
    let (v, n) ← parseNum .network 1 bs
    pure (v != 0, n)
  compose := fun b => composeNum .network 1 (if b then 1 else 0)

def u32 : Codec Nat := num .network 4

/-- `parse_bytes(name, 4)` / `compose_bytes(value, 4)`: an SSH `string` -/
def sshBytes : Codec Bytes := bytesPrefixed .network 4

/-! ### KEXINIT -/

structure KexInit where
  cookie : Bytes
  kex : List Name
  hostKey : List Name
  encC2S : List Name
  encS2C : List Name
  macC2S : List Name
  macS2C : List Name
  compC2S : List Name
  compS2C : List Name
  langC2S : List (List Bytes)
  langS2C : List (List Bytes)
  firstKexPacketFollows : Bool
  reserved : Nat
deriving Repr, DecidableEq

abbrev KexInitTuple :=
  Unit × Bytes × List Name × List Name × List Name × List Name × List Name × List Name × List Name ×
    List Name × List (List Bytes) × List (List Bytes) × Bool × Nat

def kexCodec := nameListCodec Gen.Ssh.SshKexAlgorithm
def hostKeyAlgCodec := nameListCodec Gen.Ssh.SshHostKeyAlgorithm
def encCodec := nameListCodec Gen.Ssh.SshEncryptionAlgorithm
def macCodec := nameListCodec Gen.Ssh.SshMacAlgorithm
def compCodec := nameListCodec Gen.Ssh.SshCompressionAlgorithm

/-- header, then (on a second `ParserBinary` over the rest) cookie, the ten vectors in
`_get_cipher_attributes` order, `first_kex_packet_follows`, `reserved` -/
def kexInitTupleCodec : Codec KexInitTuple :=
  seq (msgCodeCodec 20) <| seq (rawN 16) <| seq kexCodec <| seq hostKeyAlgCodec <|
  seq encCodec <| seq encCodec <| seq macCodec <| seq macCodec <| seq compCodec <| seq compCodec <|
  seq languageListCodec <| seq languageListCodec <| seq boolCodec u32

def KexInit.ofTuple : KexInitTuple → KexInit
  | ((), ck, a, b, c, d, e, f, g, h, i, j, k, r) => ⟨ck, a, b, c, d, e, f, g, h, i, j, k, r⟩

def KexInit.toTuple (k : KexInit) : KexInitTuple :=
  ((), k.cookie, k.kex, k.hostKey, k.encC2S, k.encS2C, k.macC2S, k.macS2C, k.compC2S, k.compS2C,
    k.langC2S, k.langS2C, k.firstKexPacketFollows, k.reserved)

/-- `SshKeyExchangeInit._parse` / `compose` -/
def kexInitCodec : Codec KexInit :=
  mapE kexInitTupleCodec (fun t => .ok (KexInit.ofTuple t)) KexInit.toTuple

/-- `','.join(...)` of every vector: a known member contributes `value.code`, a `str` itself -/
def hasshParts : List (List Bytes × List Name) → Except PErr (List Bytes)
  | [] => .ok []
  | (codes, names) :: rest => do
    let t ← nameTexts codes names
    let r ← hasshParts rest
    pure (joinItems comma t :: r)

/-- `SshKeyExchangeInit._hassh(vectors)` before hashing: `';'.join(','.join(names))` -/
def hasshText (lists : List (List Bytes × List Name)) : Except PErr Bytes :=
  (hasshParts lists).map (joinItems 0x3b)

def hasshPreimage (k : KexInit) : Except PErr Bytes :=
  hasshText [(Gen.Ssh.SshKexAlgorithm, k.kex), (Gen.Ssh.SshEncryptionAlgorithm, k.encC2S),
    (Gen.Ssh.SshMacAlgorithm, k.macC2S), (Gen.Ssh.SshCompressionAlgorithm, k.compC2S)]

def hasshServerPreimage (k : KexInit) : Except PErr Bytes :=
  hasshText [(Gen.Ssh.SshKexAlgorithm, k.kex), (Gen.Ssh.SshEncryptionAlgorithm, k.encS2C),
    (Gen.Ssh.SshMacAlgorithm, k.macS2C), (Gen.Ssh.SshCompressionAlgorithm, k.compS2C)]

/-! ### UTF-8 (`six.ensure_text(value, 'utf-8')`, strict) -/

def isCont (b : UInt8) : Bool := 0x80 ≤ b.toNat && b.toNat ≤ 0xbf

/-- well-formed UTF-8 (Unicode Table 3-7): no overlong forms, no surrogates, nothing above U+10FFFF -/
def validUtf8Aux : Nat → Bytes → Bool
  | _, [] => true
  | 0, _ => false
  | fuel + 1, a :: rest =>
    let x := a.toNat
    if x < 0x80 then validUtf8Aux fuel rest
    else if 0xc2 ≤ x && x ≤ 0xdf then
      match rest with
      | b :: r => isCont b && validUtf8Aux fuel r
      | _ => false
    else if 0xe0 ≤ x && x ≤ 0xef then
      match rest with
      | b :: c :: r =>
        (if x == 0xe0 then 0xa0 ≤ b.toNat && b.toNat ≤ 0xbf
         else if x == 0xed then 0x80 ≤ b.toNat && b.toNat ≤ 0x9f
         else isCont b) && isCont c && validUtf8Aux fuel r
      | _ => false
    else if 0xf0 ≤ x && x ≤ 0xf4 then
      match rest with
      | b :: c :: d :: r =>
        (if x == 0xf0 then 0x90 ≤ b.toNat && b.toNat ≤ 0xbf
         else if x == 0xf4 then 0x80 ≤ b.toNat && b.toNat ≤ 0x8f
         else isCont b) && isCont c && isCont d && validUtf8Aux fuel r
      | _ => false
    else false

def validUtf8 (b : Bytes) : Bool := validUtf8Aux b.length b

/-- `parse_string(name, 4, 'utf-8')` -/
def utf8String : Codec Bytes where
  parse := fun bs => do
    let (v, n) ← parseBytes .network 4 bs
    if validUtf8 v then pure (v, n) else .error .invalidValue
  compose := composeBytes .network 4

def asciiString : Codec Bytes := ⟨parseAsciiString, composeAsciiString⟩

/-! ### the messages -/

inductive Msg where
  | disconnect (reason : Nat) (description : Bytes) (language : Bytes)
  | unimplemented (sequenceNumber : Nat)
  | kexInit (k : KexInit)
  | dhInit (code : Nat) (e : Bytes)                        -- 30 `SshDHKeyExchangeInit`, 32 `SshDHGroupExchangeInit`
  | dhReply (code : Nat) (hostKey : HostKey) (f : Bytes) (signature : Bytes)  -- 31 / 33
  | gexRequest (min n max : Nat)
  | gexGroup (p g : Bytes)
  | newKeys
deriving Repr, DecidableEq

/-- `SshDisconnectMessage`: code 1, `reason` (4 bytes, `SshReasonCode`), description (UTF-8), language (ASCII) -/
def disconnectCodec : Codec (Unit × Nat × Bytes × Bytes) :=
  seq (msgCodeCodec 1) <| seq
    ⟨parseIntEnum Gen.SshReasonCode.memberCodes 4, fun v => composeNum .network 4 (v : Int)⟩ <|
    seq utf8String asciiString

def unimplementedCodec : Codec (Unit × Nat) := seq (msgCodeCodec 3) u32
def dhInitCodec (code : Nat) : Codec (Unit × Bytes) := seq (msgCodeCodec code) sshBytes
def gexRequestCodec : Codec (Unit × Nat × Nat × Nat) := seq (msgCodeCodec 34) <| seq u32 <| seq u32 u32
def gexGroupCodec : Codec (Unit × Bytes × Bytes) := seq (msgCodeCodec 31) <| seq sshBytes sshBytes
def newKeysCodec : Codec Unit := msgCodeCodec 21

def hostKeyPrefixedCodec : Codec HostKey := ⟨parseHostKeyPrefixed, composeHostKeyPrefixed⟩

def dhReplyCodec (code : Nat) : Codec (Unit × HostKey × Bytes × Bytes) :=
  seq (msgCodeCodec code) <| seq hostKeyPrefixedCodec <| seq sshBytes sshBytes

/-- `Class._parse` by class name -/
def parseMsgClass (cls : String) (bs : Bytes) : Except PErr (Msg × Nat) :=
  match cls with
  | "SshDisconnectMessage" => (disconnectCodec.parse bs).map fun ((_, r, d, l), n) => (.disconnect r d l, n)
  | "SshUnimplementedMessage" => (unimplementedCodec.parse bs).map fun ((_, s), n) => (.unimplemented s, n)
  | "SshKeyExchangeInit" => (kexInitCodec.parse bs).map fun (k, n) => (.kexInit k, n)
  | "SshDHKeyExchangeInit" => ((dhInitCodec 30).parse bs).map fun ((_, e), n) => (.dhInit 30 e, n)
  | "SshDHGroupExchangeInit" => ((dhInitCodec 32).parse bs).map fun ((_, e), n) => (.dhInit 32 e, n)
  | "SshDHKeyExchangeReply" => ((dhReplyCodec 31).parse bs).map fun ((_, k, f, s), n) => (.dhReply 31 k f s, n)
  | "SshDHGroupExchangeReply" => ((dhReplyCodec 33).parse bs).map fun ((_, k, f, s), n) => (.dhReply 33 k f s, n)
  | "SshDHGroupExchangeRequest" => (gexRequestCodec.parse bs).map fun ((_, a, b, c), n) => (.gexRequest a b c, n)
  | "SshDHGroupExchangeGroup" => (gexGroupCodec.parse bs).map fun ((_, p, g), n) => (.gexGroup p g, n)
  | "SshNewKeys" => (newKeysCodec.parse bs).map fun (_, n) => (.newKeys, n)
  | _ => .error unmodelled

def composeMsg : Msg → Except PErr Bytes
  | .disconnect r d l => disconnectCodec.compose ((), r, d, l)
  | .unimplemented s => unimplementedCodec.compose ((), s)
  | .kexInit k => kexInitCodec.compose k
  | .dhInit code e => (dhInitCodec code).compose ((), e)
  | .dhReply code k f s => (dhReplyCodec code).compose ((), k, f, s)
  | .gexRequest a b c => gexRequestCodec.compose ((), a, b, c)
  | .gexGroup p g => gexGroupCodec.compose ((), p, g)
  | .newKeys => newKeysCodec.compose ()

/-- `VariantParsable._parse` over the regenerated class order of an `SshMessageVariant*` -/
def parseMsgVariant (variants : List (String × Nat)) (bs : Bytes) : Except PErr (Msg × Nat) :=
  firstNotInvalidType (variants.map fun (cls, _) => parseMsgClass cls) bs

def msgVariantCodec (variants : List (String × Nat)) : Codec Msg := ⟨parseMsgVariant variants, composeMsg⟩

/-! ### the binary packet (RFC 4253 §6) -/

/-- `padding_length` as `SshRecordBase.compose` computes it -/
def padLen (payload : Nat) : Nat :=
  let p := 8 - (payload + 5) % 8
  if p < 4 then p + 8 else p

/-- `parse_exact_size` of the message on the payload slice inside the `try` of `SshRecordBase._parse`:
the message must consume the payload exactly; `NotEnoughData` and `TooMuchData` of the inner parse
are translated to `InvalidValue`, everything else propagates -/
def parsePayload (m : Codec α) (payload : Bytes) : Except PErr α :=
  match m.parse payload with
  | .ok (v, k) => if payload.length > k then .error .invalidValue else .ok v
  | .error (.notEnough _) => .error .invalidValue
  | .error (.tooMuch _) => .error .invalidValue
  | .error e => .error e

/-- `SshRecordBase._parse` / `compose` around a message codec (repaired: the message is parsed from
exactly the `packet_length - padding_length - 1` payload bytes the header declares; it used to be
handed the whole rest of the buffer).  A `padding_length` that leaves a negative payload length is
`InvalidValue`. -/
def recordCodec (m : Codec α) : Codec α where
  parse := fun bs => do
    let (plen, _) ← parseNum .network 4 bs
    let rest := bs.drop 4
    if plen > rest.length then .error (.notEnough ((plen - rest.length : Nat) : Int))
    else
      let (pad, _) ← parseNum .network 1 rest
      if plen < pad + 1 then .error .invalidValue
      else
        let (payload, k) ← parseRaw ((plen - pad - 1 : Nat) : Int) (rest.drop 1)
        let v ← parsePayload m payload
        let (_, _) ← parseRaw (pad : Int) ((rest.drop 1).drop k)
        pure (v, 4 + 1 + k + pad)
  compose := fun v => do
    let payload ← m.compose v
    let p := padLen payload.length
    let h ← composeNum .network 4 ((payload.length + p + 1 : Nat) : Int)
    let q ← composeNum .network 1 (p : Int)
    pure (h ++ q ++ payload ++ List.replicate p 0)

def recordInit : Codec Msg := recordCodec (msgVariantCodec Gen.Ssh.SshMessageVariantInit)
def recordKexDH : Codec Msg := recordCodec (msgVariantCodec Gen.Ssh.SshMessageVariantKexDH)
def recordKexDHGroup : Codec Msg := recordCodec (msgVariantCodec Gen.Ssh.SshMessageVariantKexDHGroup)

end Cp.Ssh
