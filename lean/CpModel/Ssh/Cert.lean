import CpModel.Vector
import CpModel.Ssh.Key
/-
  CpModel.Ssh.Cert — OpenSSH v01 host certificates (`SshHostCertificateV01RSA/DSS/ECDSA/EDDSA`,
  `cryptoparser/ssh/key.py`), parsed through their own classes.  The v00 certificates and the X.509
  forms are `UNMODELLED`; so is a certificate reached through `SshHostPublicKeyVariant` (also as the
  signature key of another certificate) and the `source-address` option (`ipaddress`).
-/
namespace Cp.Ssh
open Cp

/-- one critical option / extension -/
inductive CertOpt where
  | noData (name : Nat)                       -- one of the six flag extensions; index into `SshCertExtensionName`
  | forceCommand (command : Bytes)
  | unparsed (name : Bytes) (data : Bytes)    -- `SshCertExtensionUnparsed`
deriving Repr, DecidableEq

/-- `StringEnumParsable._parse` of `SshCertExtensionName` on a slice: candidates not longer than the
slice, longest first (stable), the first that is a prefix -/
def matchOptName (slice : Bytes) : Option (Nat × Nat) :=
  let cands := (List.zip (List.range Gen.Ssh.certExtensionNames.length) Gen.Ssh.certExtensionNames).filter
    fun p => p.2.length ≤ slice.length
  let sorted := cands.foldr insertStable []
  (sorted.find? fun p => p.2 == slice.take p.2.length).map fun p => (p.1, p.2.length)
where
  insertStable (x : Nat × Bytes) : List (Nat × Bytes) → List (Nat × Bytes)
    | [] => [x]
    | y :: ys => if x.2.length ≥ y.2.length then x :: y :: ys else y :: insertStable x ys

/-- `SshCertExtensionParsed._parse_header`: `parse_parsable('extension_name', SshCertExtensionName, 4)`
— the declared slice must be there, decode as ASCII, be matched by a name and be consumed by it -/
def parseOptName (bs : Bytes) : Except PErr (Nat × Nat) := do
  let (len, _) ← parseNum .network 4 bs
  if bs.length < 4 + len then .error (.notEnough ((4 + len - bs.length : Nat) : Int))
  else
    let slice := (bs.drop 4).take len
    if !isAscii slice then .error .invalidValue
    else
      match matchOptName slice with
      | none => .error .invalidValue
      | some (i, n) => if slice.length > n then .error (.tooMuch (n : Int)) else pure (i, 4 + len)

/-- `SshCertExtensionUnparsed._parse` -/
def parseOptUnparsed (bs : Bytes) : Except PErr (CertOpt × Nat) := do
  let (name, n1) ← parseAsciiString bs
  let (data, n2) ← parseBytes .network 4 (bs.drop n1)
  pure (.unparsed name data, n1 + n2)

/-- `SshCertCriticalOptionVariant` / `SshCertExtensionVariant`: every class starts with the same
header; a class of another name answers `InvalidType`; exhaustion is `InvalidValue` -/
def parseOptVariant (variants : List (String × Nat)) (bs : Bytes) : Except PErr (CertOpt × Nat) := do
  if variants.isEmpty then .error .invalidValue
  else
    let (i, n) ← parseOptName bs
    match variants.find? (·.2 == i) with
    | none => .error .invalidValue
    | some (cls, _) =>
      if cls == "SshCertExtensionForceCommand" then do
        let (cmd, m) ← parseAsciiString (bs.drop n)
        pure (.forceCommand cmd, n + m)
      else if cls == "SshCertExtensionSourceAddress" then .error unmodelled
      else do
        -- the flag extensions read a 4-byte data length and ignore its value
        let (_, m) ← parseNum .network 4 (bs.drop n)
        pure (.noData i, n + m)

/-- one item of the option vectors: the variant, on `InvalidValue` the fallback -/
def parseOpt (variants : List (String × Nat)) (bs : Bytes) : Except PErr (CertOpt × Nat) :=
  Codec.orElseInvalid (parseOptVariant variants) parseOptUnparsed bs

def composeOpt : CertOpt → Except PErr Bytes
  | .noData i =>
    match Gen.Ssh.certExtensionNames[i]? with
    | none => .error (.crash "AttributeError")
    | some name => do
      let a ← composeAsciiString name
      let b ← composeNum .network 4 0
      pure (a ++ b)
  | .forceCommand cmd => do
    let name := Gen.Ssh.certExtensionNames.getD 0 []
    let a ← composeAsciiString name
    let b ← composeAsciiString cmd
    pure (a ++ b)
  | .unparsed name data => do
    let a ← composeAsciiString name
    let b ← composeBytes .network 4 data
    pure (a ++ b)

def optSize (o : CertOpt) : Except PErr Nat := (composeOpt o).map (·.length)

structure Cert where
  nonce : Bytes
  serial : Nat
  certType : Nat                 -- index into `SshCertType`
  keyId : Bytes
  principals : List Bytes
  validAfter : Nat
  validBefore : Option Nat
  criticalOptions : List CertOpt
  extensions : List CertOpt
  reserved : Bytes
  signatureKey : HostKey
  signatureType : Nat            -- index into `SshHostKeyAlgorithm`
  signatureData : Bytes
deriving Repr, DecidableEq

structure CertKey where
  key : HostKey
  cert : Cert
deriving Repr, DecidableEq

def certKindOf : String → Option KeyKind
  | "SshHostCertificateV01RSA" => some .rsa
  | "SshHostCertificateV01DSS" => some .dss
  | "SshHostCertificateV01ECDSA" => some .ecdsa
  | "SshHostCertificateV01EDDSA" => some .eddsa
  | _ => none

def principalsParam : VecParam := VecParam.ofGen Gen.vec_SshCertValidPrincipals
def criticalParam : VecParam := VecParam.ofGen Gen.vec_SshCertCriticalOptionVector
def extensionParam : VecParam := VecParam.ofGen Gen.vec_SshCertExtensionVector

/-- `SshCertSignature` behind `parse_parsable(…, 4)` -/
def parseSignaturePrefixed (bs : Bytes) : Except PErr ((Nat × Bytes) × Nat) := do
  let (len, _) ← parseNum .network 4 bs
  if bs.length < 4 + len then .error (.notEnough ((4 + len - bs.length : Nat) : Int))
  else
    let slice := (bs.drop 4).take len
    let (name, n1) ← parseAsciiString slice
    match findName name Gen.Ssh.SshHostKeyAlgorithm with
    | none => .error .invalidValue
    | some i =>
      let (data, n2) ← parseBytes .network 4 (slice.drop n1)
      if slice.length > n1 + n2 then .error (.tooMuch ((n1 + n2 : Nat) : Int)) else pure ((i, data), 4 + len)

/-- `SshHostCertificateV01Base._parse` of one certificate class -/
def parseCertClass (cls : String) (bs : Bytes) : Except PErr (CertKey × Nat) := do
  let (algo, n0) ← parseKeyAlgorithm bs
  if !(acceptedOf cls).contains algo then .error .invalidType
  else
    match certKindOf cls with
    | none => .error unmodelled
    | some kind =>
      let (nonce, n1) ← parseBytes .network 4 (bs.drop n0)
      let (params, n2) ← parseKeyParams kind (bs.drop (n0 + n1))
      let p := n0 + n1 + n2
      let (serial, a1) ← parseNum .network 8 (bs.drop p)
      let (ctype, a2) ← parseCoded Gen.SshCertType.codes 4 (bs.drop (p + a1))
      let (keyId, a3) ← parseAsciiString (bs.drop (p + a1 + a2))
      let q := p + a1 + a2 + a3
      let (principals, b1) ← parseVecItems principalsParam parseAsciiString
        (fun s => (composeAsciiString s).map (·.length)) (bs.drop q)
      let (va, b2) ← parseTimestamp .network false 8 (bs.drop (q + b1))
      -- the all-ones value means "no limit", which only the end of the validity can be: an
      -- `InvalidValue` raised right after the field is read (repaired: `None` used to reach the
      -- constructor, whose validator raised `TypeError` inside parse)
      match va with
      | none => .error .invalidValue
      | some after =>
        let (vb, b3) ← parseTimestamp .network false 8 (bs.drop (q + b1 + b2))
        let r := q + b1 + b2 + b3
        let (crit, c1) ← parseVecItems criticalParam (parseOpt Gen.Ssh.certCriticalOptionVariants) optSize (bs.drop r)
        let (exts, c2) ← parseVecItems extensionParam (parseOpt Gen.Ssh.certExtensionVariants) optSize (bs.drop (r + c1))
        let (reserved, c3) ← parseBytes .network 4 (bs.drop (r + c1 + c2))
        let t := r + c1 + c2 + c3
        let (sigKey, d1) ← parseHostKeyPrefixed (bs.drop t)
        let ((sigType, sigData), d2) ← parseSignaturePrefixed (bs.drop (t + d1))
        pure (⟨⟨cls, algo, params⟩,
          ⟨nonce, serial, ctype, keyId, principals, after, vb, crit, exts, reserved, sigKey, sigType, sigData⟩⟩,
          t + d1 + d2)

def composeCert (k : CertKey) : Except PErr Bytes :=
  match Gen.Ssh.SshHostKeyAlgorithm[k.key.algo]?, Gen.SshCertType.codes[k.cert.certType]?,
      Gen.Ssh.SshHostKeyAlgorithm[k.cert.signatureType]? with
  | some name, some ctype, some sigName => do
    let c := k.cert
    let a ← composeAsciiString name
    let b ← composeBytes .network 4 c.nonce
    let p ← composeKeyParams k.key.params
    let s ← composeNum .network 8 (c.serial : Int)
    let t ← composeNum .network 4 (ctype : Int)
    let i ← composeAsciiString c.keyId
    let pr ← composeVecItems principalsParam composeAsciiString c.principals
    let va ← composeTimestamp .network 8 (some c.validAfter)
    let vb ← composeTimestamp .network 8 c.validBefore
    let cr ← composeVecItems criticalParam composeOpt c.criticalOptions
    let ex ← composeVecItems extensionParam composeOpt c.extensions
    let rs ← composeBytes .network 4 c.reserved
    let sk ← composeHostKeyPrefixed c.signatureKey
    let sn ← composeAsciiString sigName
    let sd ← composeBytes .network 4 c.signatureData
    let sg ← composeBytes .network 4 (sn ++ sd)
    pure (a ++ b ++ p ++ s ++ t ++ i ++ pr ++ va ++ vb ++ cr ++ ex ++ rs ++ sk ++ sg)
  | _, _, _ => .error (.crash "AttributeError")

end Cp.Ssh
