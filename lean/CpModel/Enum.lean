import CpModel.Prim
import CpModel.Codec
import CpModel.Gen.Enums
/-
  CpModel.Enum — coded enumerations on the wire.

  `NByteEnumParsable._parse` reads a big-endian code of `get_byte_num()` bytes and returns the
  FIRST member, in iteration order, whose `value.code` equals it; no member → `InvalidValue`.
  A member is identified in the model by its index in the regenerated table.
  `TlsInvalidTypeBase` (the fallback used for GREASE/unknown code points) keeps the code verbatim.
-/
namespace Cp

/-- index of the first entry equal to `c` (linear search, as `for enum_item in list(enum)`). -/
def findCode (c : Nat) : List Nat → Option Nat
  | [] => none
  | x :: xs => if x = c then some 0 else (findCode c xs).map (· + 1)

/-- A value of a coded position on the wire: a table member (by index) or an "invalid type"
wrapper carrying the code it was parsed from. -/
inductive Coded where
  | known (idx : Nat)
  | unknown (code : Nat)
deriving Repr, DecidableEq, BEq

/-- `EnumFactory._parse`: strict decoding, unknown code → `InvalidValue`. -/
def parseCoded (codes : List Nat) (k : Nat) (rest : Bytes) : Except PErr (Nat × Nat) := do
  let (c, n) ← parseNum .network k rest
  match findCode c codes with
  | some i => pure (i, n)
  | none => .error .invalidValue

/-- `compose_numeric_enum_coded(member)` / `NByteEnumComposer.compose`: the member's code in its
code size. An index outside the table cannot be built by a caller (no such member). -/
def composeCoded (codes : List Nat) (k : Nat) (i : Nat) : Except PErr Bytes :=
  match codes[i]? with
  | some c => composeNum .network k c
  | none => .error (.crash "AttributeError")

/-- `TlsInvalidTypeBase._parse`: any code is accepted and kept. -/
def parseInvalidType (k : Nat) (rest : Bytes) : Except PErr (Nat × Nat) :=
  parseNum .network k rest

/-- one item of a `VectorParamEnumCodeNumeric` vector / any `item_class` + `fallback_class`
position: the strict parser first, on `InvalidValue` the fallback. -/
def parseCodedOrFallback (codes : List Nat) (k : Nat) (rest : Bytes) : Except PErr (Coded × Nat) :=
  match parseCoded codes k rest with
  | .ok (i, n) => .ok (.known i, n)
  | .error .invalidValue =>
    match parseInvalidType k rest with
    | .ok (c, n) => .ok (.unknown c, n)
    | .error e => .error e
  | .error e => .error e

def composeCodedOrFallback (codes : List Nat) (k : Nat) : Coded → Except PErr Bytes
  | .known i => composeCoded codes k i
  | .unknown c => composeNum .network k c

/-- GREASE or UNKNOWN classification of `TlsInvalidTypeBase.__attrs_post_init__` -/
def isGrease (greaseCodes : List Nat) (c : Nat) : Bool := (findCode c greaseCodes).isSome

/-- the code a wire value stands for -/
def Coded.code (codes : List Nat) : Coded → Option Nat
  | .known i => codes[i]?
  | .unknown c => some c

/-! ### string-coded enumerations (`StringEnumParsableBase._parse`) -/

def asciiLower (c : Char) : Char := if 'A' ≤ c ∧ c ≤ 'Z' then Char.ofNat (c.toNat + 32) else c
def strLower (s : String) : String := String.ofList (s.toList.map asciiLower)

/-- `StringEnumParsableBase._parse` on ASCII text: candidates no longer than the input, longest
first (stable), first whose code equals the input's prefix of that length. Returns the index in
the table and the consumed length. -/
def parseStrEnum (insensitive : Bool) (codes : List String) (text : String) : Except PErr (Nat × Nat) :=
  let cands := (List.zip (List.range codes.length) codes).filter (fun p => p.2.length ≤ text.length)
  let eq (a b : String) : Bool := if insensitive then strLower a == strLower b else a == b
  match (sortByLenDesc' cands).find? (fun p => eq p.2 (String.ofList (text.toList.take p.2.length))) with
  | some p => .ok (p.1, p.2.length)
  | none => .error .invalidValue
where
  /-- Python's `sort(reverse=True)` keeps the original order among equal keys. -/
  sortByLenDesc' (l : List (Nat × String)) : List (Nat × String) :=
    l.foldr (fun x acc => insertStable x acc) []
  insertStable (x : Nat × String) : List (Nat × String) → List (Nat × String)
    | [] => [x]
    | y :: ys => if x.2.length ≥ y.2.length then x :: y :: ys else y :: insertStable x ys

end Cp

namespace Cp

/-- `_parse_parsable_derived_array(len(b), [Factory], fallback)` over code positions: items until
the slice is exhausted; a trailing fragment shorter than a code is `NotEnoughData`. Without a
fallback an unknown code surfaces as `ValueError`, which the callers turn into `InvalidValue`. -/
def parseCodedArray (codes : List Nat) (k : Nat) (fallback : Bool) : Nat → Bytes → Except PErr (List Coded)
  | 0, _ => .ok []
  | fuel + 1, b =>
    if b.isEmpty then .ok []
    else
      match (if fallback then parseCodedOrFallback codes k b
             else (parseCoded codes k b).map fun (i, n) => (Coded.known i, n)) with
      | .error e => .error e
      | .ok (v, n) =>
        if n == 0 then .error (.crash "NonTermination")
        else (parseCodedArray codes k fallback fuel (b.drop n)).map (v :: ·)

/-- `IntEnum(value)` as a converter inside `parse_numeric`: lookup by value among `__members__`
(aliases resolve to the canonical member, i.e. the same value); `ValueError` → `InvalidValue`. -/
def parseIntEnum (memberCodes : List Nat) (k : Nat) (rest : Bytes) : Except PErr (Nat × Nat) := do
  let (c, n) ← parseNum .network k rest
  if memberCodes.contains c then pure (c, n) else .error .invalidValue

/-- a strictly decoded coded-enumeration position as a codec (value = index of the member) -/
def codedStrict (codes : List Nat) (k : Nat) : Codec Nat := ⟨parseCoded codes k, composeCoded codes k⟩

/-- an `IntEnum`-converted numeric field as a codec (value = the member's number) -/
def intEnum (members : List Nat) (k : Nat) : Codec Nat :=
  ⟨parseIntEnum members k, fun v => composeNum .network k (v : Int)⟩

end Cp
