#!/usr/bin/env python3
"""Confirm a seeded change independently and run the registered checks against it.

usage: tools/seed_eval.py <PROP> <dir with patch.diff, demo.py, notes.md> [--checks C01,C02] [--keep-id NAME]

1. in a fresh scratch worktree of /repo: the demo passes without the change;
2. with the change applied: the repository's test suite still gives the baseline result, the demo fails;
3. the quick checks of the listed properties are run with CP_REPO pointing at the changed worktree;
4. the worktree is removed; patch, demo and meta.json are stored under /verif/seeded/<id>/.
Nothing is ever applied to /repo itself.
"""
import json
import os
import re
import shutil
import subprocess
import sys
import time

VERIF = os.path.dirname(os.path.dirname(os.path.abspath(__file__)))


def sh(cmd, cwd=None, env=None, timeout=3000):
    p = subprocess.run(cmd, cwd=cwd, env=env, stdout=subprocess.PIPE, stderr=subprocess.STDOUT,
                       universal_newlines=True, timeout=timeout, shell=isinstance(cmd, str), check=False)
    return p.returncode, p.stdout


def main():
    prop = sys.argv[1]
    src = os.path.abspath(sys.argv[2])
    checks = [prop]
    name = None
    base = 'HEAD'       # the /repo commit the change is applied to (one the /verif model currently follows)
    args = sys.argv[3:]
    while args:
        a = args.pop(0)
        if a == '--checks':
            checks = args.pop(0).split(',')
        elif a == '--keep-id':
            name = args.pop(0)
        elif a == '--base':
            base = args.pop(0)
    name = name or '{}-{}'.format(prop, os.path.basename(src))
    patch = os.path.join(src, 'patch.diff')
    demo_src = open(os.path.join(src, 'demo.py')).read()
    wt = '/tmp/seedeval_{}_{}'.format(name, os.getpid())
    rc, out = sh(['git', '-C', '/repo', 'worktree', 'add', '-q', '--detach', wt, base])
    if rc:
        print(out)
        return 3
    meta = {'id': name, 'property': prop, 'source_dir': src, 'base_commit': base, 'checks_run': {}, 'confirmed': {}}
    try:
        # the demo refers to the seeding agent's own worktree path: point it at ours
        demo = re.sub(r'/tmp/seed2?_C\d+', wt, demo_src)
        demo_path = os.path.join(wt, '_demo.py')
        with open(demo_path, 'w') as f:
            f.write(demo)
        rc_clean, out_clean = sh(['/venv/bin/python', '-W', 'ignore', demo_path], cwd=wt, timeout=600)
        meta['confirmed']['demo_passes_without_change'] = (rc_clean == 0)
        rc, out = sh(['git', '-C', wt, 'apply', patch])
        if rc:
            print('patch does not apply:', out)
            return 3
        rc_t, out_t = sh('/venv/bin/python -m pytest -q -p no:cacheprovider --timeout=900 2>&1 | tail -1', cwd=wt)
        meta['confirmed']['test_suite_tail'] = out_t.strip()
        meta['confirmed']['tests_still_pass'] = ('637 passed' in out_t and '7 failed' in out_t)
        rc_mut, out_mut = sh(['/venv/bin/python', '-W', 'ignore', demo_path], cwd=wt, timeout=600)
        meta['confirmed']['demo_fails_with_change'] = (rc_mut != 0)
        meta['confirmed']['demo_output_with_change'] = out_mut[-600:]
        os.remove(demo_path)
        env = dict(os.environ)
        env['CP_REPO'] = wt
        for c in checks:
            t0 = time.time()
            rc_c, out_c = sh(['./check', c, '--tier', 'quick'], cwd=VERIF, env=env, timeout=3000)
            lines = [l for l in out_c.split('\n') if l and not l.startswith('KNOWN-FINDING')]
            viol = [l for l in lines if l.startswith('VIOLATION')]
            meta['checks_run'][c] = {
                'exit': rc_c, 'violation_line': viol[0] if viol else None,
                'detail': [l for l in lines if not l.startswith('VIOLATION')][-3:],
                'wall_s': round(time.time() - t0, 1),
                'detected': rc_c == 1 and bool(viol),
                'with_failing_input': bool(viol) and 'no-failing-input-found' not in viol[0],
            }
            print('{} on {}: exit {} {}'.format(c, name, rc_c, viol[0] if viol else ''))
            for l in meta['checks_run'][c]['detail']:
                print('    ' + l[:300])
    finally:
        sh(['git', '-C', '/repo', 'worktree', 'remove', '--force', wt])
        sh(['/venv/bin/python', os.path.join(VERIF, 'tools', 'extract.py')])
    dest = os.path.join(VERIF, 'seeded', name)
    os.makedirs(dest, exist_ok=True)
    shutil.copy(patch, os.path.join(dest, 'patch.diff'))
    with open(os.path.join(dest, 'demo.py'), 'w') as f:
        f.write(re.sub(r'/tmp/seed2?_C\d+', '/repo', demo_src))
    notes = os.path.join(src, 'notes.md')
    if os.path.exists(notes):
        shutil.copy(notes, os.path.join(dest, 'notes.md'))
        meta['needs_to_manifest'] = open(notes).read()[:1500]
    meta['what_was_run'] = ('tools/seed_eval.py: scratch worktree of /repo; demo without change; git apply patch; repository '
                            'test suite; demo with change; ./check <P> --tier quick with CP_REPO=<worktree>; worktree removed')
    with open(os.path.join(dest, 'meta.json'), 'w') as f:
        json.dump(meta, f, indent=1)
    print(json.dumps(meta['confirmed'], indent=1)[:800])
    return 0


if __name__ == '__main__':
    sys.exit(main())
