#!/venv/bin/python
"""Standalone reproducers for the SSH findings (run against the tree named by CP_REPO, default /repo)."""
import os, sys, hashlib, struct
sys.path.insert(0, os.environ.get('CP_REPO', '/repo'))
from cryptoparser.ssh.record import SshRecordInit
from cryptoparser.ssh.subprotocol import (SshProtocolMessage, SshKexAlgorithmVector, SshKeyExchangeInit)
from cryptoparser.ssh.key import SshHostPublicKeyVariant, SshCertExtensionForceCommand

def u32(n): return struct.pack('>I', n)
def s(b): return u32(len(b)) + b
def show(label, fn):
    try:
        print('%-34s -> %r' % (label, fn()))
    except Exception as e:
        print('%-34s -> %s(%s)' % (label, type(e).__name__, getattr(e, 'bytes_needed', str(e)[:60])))

unimpl = b'\x03' + u32(1)
print('--- C03 record not confined to packet_length (n must be 4 + packet_length)')
show('packet_length=2, 10 bytes', lambda: SshRecordInit.parse_immutable(u32(2) + b'\x00' + unimpl)[1])
show('packet_length=12 padding=200', lambda: SshRecordInit.parse_immutable(u32(12) + b'\xc8' + unimpl + bytes(200))[1])
b = u32(34) + b'\x00' + unimpl + bytes(28)
show('packet_length=34: n', lambda: SshRecordInit.parse_immutable(b)[1])
show('  its first n bytes alone', lambda: SshRecordInit.parse_immutable(b[:10])[1])
print('--- C03/C07 truncated name-list accepted (must be NotEnoughData(13))')
show("00000010 'abc'", lambda: (list(SshKexAlgorithmVector.parse_immutable(u32(16) + b'abc')[0]), SshKexAlgorithmVector.parse_immutable(u32(16) + b'abc')[1]))
print('--- C02 identification string: exceptions outside the four parse errors')
for banner in (b'SSH-3.0-x\r\n', b'SSH-2.0-foo \n', b'SSH-2.0-\n'):
    show(repr(banner[:24]), lambda: SshProtocolMessage.parse_immutable(banner)[1])
print('--- C02 ECDSA host key: asn1crypto ValueError escapes')
show('compressed point', lambda: SshHostPublicKeyVariant.parse_immutable(s(b'ecdsa-sha2-nistp256') + s(b'nistp256') + s(b'\x03' + b'\x01' * 32))[1])
show('empty point', lambda: SshHostPublicKeyVariant.parse_immutable(s(b'ecdsa-sha2-nistp256') + s(b'nistp256') + s(b''))[1])
show('x = 0', lambda: SshHostPublicKeyVariant.parse_immutable(s(b'ecdsa-sha2-nistp256') + s(b'nistp256') + s(b'\x04' + bytes(32) + b'\x01' * 32))[1])
print('--- C16 HASSH of a KEXINIT whose kex list has a trailing comma')
lists = [s(b'curve25519-sha256,'), s(b'ssh-rsa'), s(b'aes128-ctr'), s(b'aes128-ctr'), s(b'hmac-sha1'), s(b'hmac-sha1'), s(b'none'), s(b'none'), s(b''), s(b'')]
payload = b'\x14' + bytes(16) + b''.join(lists) + b'\x00' + u32(0)
show('implementation hassh', lambda: SshKeyExchangeInit.parse_exact_size(payload).hassh)
print('%-34s -> %r' % ('md5 of the wire strings', hashlib.md5(b'curve25519-sha256,;aes128-ctr;hmac-sha1;none').hexdigest()))
print('--- C07 certificate option: PROTOCOL.certkeys wraps the value in a second string')
show('ForceCommand("ls").compose()', lambda: bytes(SshCertExtensionForceCommand('ls').compose()).hex())
print('%-34s -> %r' % ('PROTOCOL.certkeys', (s(b'force-command') + s(s(b'ls'))).hex()))
print('--- C03 identification string followed by a line feed is not self-delimiting')
show('SSH-2.0-x\\r\\n', lambda: SshProtocolMessage.parse_immutable(b'SSH-2.0-x\r\n')[1])
show('SSH-2.0-x\\r\\n + \\n\\nabc', lambda: SshProtocolMessage.parse_immutable(b'SSH-2.0-x\r\n\n\nabc')[1])
print('--- C01 certificate extension whose name extends a known name makes the vector unparsable')
from cryptoparser.ssh.key import SshCertExtensionVector, SshCertExtensionUnparsed
v = SshCertExtensionVector([SshCertExtensionUnparsed('permit-pty-extended@example.com', b'')])
show('compose then parse', lambda: SshCertExtensionVector.parse_exact_size(v.compose()))
print('--- C07/C01 identification string longer than 255 bytes is composed (and refused by the parser)')
from cryptoparser.ssh.version import SshProtocolVersion, SshSoftwareVersionUnparsed
m = SshProtocolMessage(SshProtocolVersion(2, 0), SshSoftwareVersionUnparsed('x' * 246))
show('len(compose())', lambda: len(m.compose()))
show('parse of it', lambda: SshProtocolMessage.parse_exact_size(m.compose()))
