#!/usr/bin/env python3
"""Render known_findings.json and seeded/*/meta.json as the Markdown tables of DESIGN.md Appendix B
(between the `<!-- BEGIN x -->` / `<!-- END x -->` markers), so the document cannot drift from the files
the checks actually read.  usage: tools/render_findings.py [--write]"""
import glob
import json
import os
import re
import sys

VERIF = os.path.dirname(os.path.dirname(os.path.abspath(__file__)))


def esc(s):
    return s.replace('|', '\\|').replace('\n', ' ')


def fixed_table(d):
    out = ['| commit | property | what failed before the repair |', '|---|---|---|']
    for f in d['fixed']:
        out.append('| {} | {} | {} |'.format(f['commit'], f['property'], esc(f['what_failed'])))
    return '\n'.join(out)


def findings_table(d):
    out = ['| property | key | what fails |', '|---|---|---|']
    for f in sorted(d['findings'], key=lambda f: (f['property'], f['key'])):
        out.append('| {} | `{}` | {} |'.format(f['property'], f['key'], esc(f['description'])))
    return '\n'.join(out)


def seeds_table():
    out = ['| seeded change | property | needs, to manifest | tests pass | demo fails | caught by (quick tier) | with failing input |',
           '|---|---|---|---|---|---|---|']
    for path in sorted(glob.glob(os.path.join(VERIF, 'seeded', '*', 'meta.json'))):
        m = json.load(open(path))
        needs = ''
        notes = os.path.join(os.path.dirname(path), 'notes.md')
        if os.path.exists(notes):
            first = open(notes).readline().strip().lstrip('# ').strip()
            needs = first[:140]
        caught = [c for c, r in m.get('checks_run', {}).items() if r.get('detected')]
        missed = [c for c, r in m.get('checks_run', {}).items() if not r.get('detected')]
        withinput = [c for c, r in m.get('checks_run', {}).items() if r.get('detected') and r.get('with_failing_input')]
        conf = m.get('confirmed', {})
        out.append('| {} | {} | {} | {} | {} | {} | {} |'.format(
            m['id'], m['property'], esc(needs),
            'yes' if conf.get('tests_still_pass') else 'NO',
            'yes' if conf.get('demo_fails_with_change') else 'NO',
            (', '.join(caught) or '—') + (' (missed by: ' + ', '.join(missed) + ')' if missed else ''),
            ', '.join(withinput) or '—'))
    return '\n'.join(out)


def status_table(d):
    import importlib.util
    out = ['| property | theorem files (CpProps) | theorems | repairs in /repo | known findings | seeded changes caught |',
           '|---|---|---|---|---|---|']
    props = ['C%02d' % i for i in range(1, 20)]
    seeds = {}
    for path in sorted(glob.glob(os.path.join(VERIF, 'seeded', '*', 'meta.json'))):
        m = json.load(open(path))
        if m.get('note', '').startswith('superseded'):
            continue
        caught = any(r.get('detected') for r in m.get('checks_run', {}).values())
        a, b = seeds.get(m['property'], (0, 0))
        seeds[m['property']] = (a + (1 if caught else 0), b + 1)
    for pid in props:
        mods = []
        path = os.path.join(VERIF, 'harness', 'props', pid.lower() + '.py')
        if os.path.exists(path):
            m = re.search(r"LEAN_MODULES = \[(.*?)\]", open(path).read(), re.S)
            if m:
                mods = re.findall(r"'CpProps\.([A-Za-z0-9_]+)'", m.group(1))
        n = 0
        for mod in mods:
            f = os.path.join(VERIF, 'lean', 'CpProps', mod + '.lean')
            if os.path.exists(f):
                n += sum(1 for line in open(f) if line.startswith('theorem '))
        fixed = sum(1 for f in d['fixed'] if f['property'] == pid)
        known = sum(1 for f in d['findings'] if f['property'] == pid)
        a, b = seeds.get(pid, (0, 0))
        out.append('| {} | {} | {} | {} | {} | {} |'.format(pid, ', '.join(mods) or '—', n, fixed, known, '{}/{}'.format(a, b) if b else '—'))
    return '\n'.join(out)


def main():
    d = json.load(open(os.path.join(VERIF, 'known_findings.json')))
    blocks = {'FIXED': fixed_table(d), 'FINDINGS': findings_table(d), 'SEEDS': seeds_table(), 'STATUS': status_table(d)}
    if '--write' not in sys.argv:
        for k, v in blocks.items():
            print('<!-- BEGIN {} -->\n{}\n<!-- END {} -->\n'.format(k, v, k))
        return
    path = os.path.join(VERIF, 'DESIGN.md')
    text = open(path).read()
    for k, v in blocks.items():
        pat = re.compile(r'<!-- BEGIN {0} -->.*?<!-- END {0} -->'.format(k), re.S)
        if not pat.search(text):
            print('marker {} missing in DESIGN.md'.format(k))
            continue
        text = pat.sub(lambda _m, k=k, v=v: '<!-- BEGIN {0} -->\n{1}\n<!-- END {0} -->'.format(k, v), text)
    open(path, 'w').write(text)
    print('DESIGN.md tables rewritten')


if __name__ == '__main__':
    main()
