import sys, time
sys.path.insert(0, '/repo')
from cryptoparser.tls.extension import TlsExtensionsServer
def u(n, v): return int(v).to_bytes(n, 'big')
def sct_core(second_len_byte, alg=b'\x04\x03'):
    # blob[0:2] = 00 xx (version 0, first log byte xx); 31 more log bytes; ts 8; ext len 0; alg; sig len 0
    return b'\x00' + bytes([second_len_byte]) + b'\x11' * 31 + b'\x00' * 8 + b'\x00\x00' + alg + b'\x00\x00'
def build(k, m):
    TT_tail = 100
    tail_item = u(2, TT_tail) + sct_core(TT_tail - 2) + b'\x00' * (TT_tail - 47)      # 102 bytes, top-level: type 100 len 98
    assert len(tail_item) == 102
    bad = u(2, 47) + sct_core(45, alg=b'\xfe\xfe')                                       # 49 bytes, top-level: type 47 len 45
    tail = tail_item * m + bad
    group_len = 6 + 49
    groups_total = group_len * k
    out = b''
    for i in range(k):
        pos = i * group_len
        list_len = (groups_total - (pos + 6)) + len(tail)
        sct_ext = u(2, 18) + u(2, 2) + u(2, list_len)
        tt = groups_total - (pos + 8)            # blob from pos+8 to the end of the groups region
        w = u(2, tt) + sct_core(45)              # top-level: type tt, len 45, data = 45 bytes
        assert len(w) == 49
        out += sct_ext + w
    body = out + tail
    return u(2, len(body)) + body
for k, m in ((10, 10), (50, 50), (100, 100), (200, 200), (400, 300)):
    data = build(k, m)
    t0 = time.time()
    try:
        v = TlsExtensionsServer.parse_exact_size(data)
        res = 'ok %d items' % len(v)
    except Exception as e:
        res = type(e).__name__ + ' ' + str(e)[:80]
    print(k, m, len(data), 'bytes', round(time.time() - t0, 3), 's', res)
