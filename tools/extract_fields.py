#!/venv/bin/python
# -*- coding: utf-8 -*-
"""Tie 1 for the text-field layer (C18): regenerate lean/CpModel/Gen/Fields.lean from the live code.

Same contract as tools/extract.py: everything is read from the imported modules of the CURRENT working tree,
nothing is copied from a previous run, the file is rewritten only when its content changes; honours CP_REPO and
CP_LEAN.

Emitted, for every concrete `FieldValueMultiple` subclass of the library (sorted by class name):
  * the list separator of its `_get_header_value_list_class()`,
  * its components in attribute order: attribute name, canonical directive name, kind (the nearest base class in
    common/field.py), whether the attribute has a default, and the NAME-MATCH MODE,
  * the attribute that receives the unmatched pairs (`metadata={'extension': True}`), if any.

The match mode is PROBED, not read from source text: `component._check_name(name)` is called on the canonical name,
on respelled versions of it (lower, upper, swapped case) and on a name that has nothing to do with it:
    exact            only the canonical spelling is accepted
    caseInsensitive  every respelling is accepted, the unrelated name is not
    anyName          the unrelated name is accepted as well (positional components: media type, X-XSS-Protection state)

`observe_assignment(class name, bytes)` runs the REAL `_parse_basic_params` (and the real list parser and the real
`_check_name`s) with the component VALUE parsers replaced by recorders: the component assignment the Lean model
`Cp.Text.parseFields` must reproduce (driver op `TX`)."""
from __future__ import print_function

import collections
import inspect
import os
import sys

VERIF = os.path.dirname(os.path.dirname(os.path.abspath(__file__)))
REPO = os.environ.get('CP_REPO', '/repo')
GEN = os.path.join(os.environ.get('CP_LEAN', os.path.join(VERIF, 'lean')), 'CpModel', 'Gen')
if REPO not in sys.path:
    sys.path.insert(0, REPO)


def lean_str(s):
    out = ['"']
    for ch in s:
        if ch == '"':
            out.append('\\"')
        elif ch == '\\':
            out.append('\\\\')
        elif 32 <= ord(ch) < 127:
            out.append(ch)
        else:
            out.append('\\u{%x}' % ord(ch))
    out.append('"')
    return ''.join(out)


def write_if_changed(path, text):
    try:
        with open(path) as f:
            if f.read() == text:
                return False
    except IOError:
        pass
    os.makedirs(os.path.dirname(path), exist_ok=True)
    with open(path, 'w') as f:
        f.write(text)
    return True


def _modules():
    import cryptoparser  # noqa: F401
    assert os.path.realpath(os.path.dirname(os.path.dirname(cryptoparser.__file__))) == os.path.realpath(REPO), \
        'cryptoparser imported from {} not from {}'.format(cryptoparser.__file__, REPO)
    from cryptoparser.common import field
    from cryptoparser.httpx import header, parse  # noqa: F401  (define the subclasses)
    from cryptoparser.dnsrec import txt  # noqa: F401
    return field


def all_subclasses(cls):
    out = []
    for sub in cls.__subclasses__():
        if sub not in out:
            out.append(sub)
        for s in all_subclasses(sub):
            if s not in out:
                out.append(s)
    return out


KINDS = [   # most specific first
    ('FieldValueComponentOption', 'option'), ('FieldValueComponentTimeDelta', 'timeDelta'),
    ('FieldValueComponentDateTime', 'dateTime'), ('FieldValueComponentStringBase64', 'base64'),
    ('FieldValueComponentQuotedString', 'quotedString'), ('FieldValueComponentBool', 'bool'),
    ('FieldValueComponentFloat', 'float'), ('FieldValueComponentPercent', 'percent'), ('FieldValueComponentNumber', 'number'),
    ('FieldValueComponentStringEnumOption', 'stringEnumOption'), ('FieldValueComponentStringEnum', 'stringEnum'),
    ('FieldValueComponentString', 'string'), ('FieldValueComponentUrl', 'url'),
    ('FieldValueComponentParsableOptional', 'parsableOptional'), ('FieldValueComponentParsable', 'parsable'),
    ('FieldValueMimeType', 'mimeType'),
]
KIND_NAMES = [k for _, k in KINDS] + ['other']


def kind_of(component, field):
    for base, kind in KINDS:
        if issubclass(component, getattr(field, base)):
            return kind
    return 'other'


def accepts(component, name):
    from cryptoparser.common.exception import InvalidType
    try:
        component._check_name(name)  # pylint: disable=protected-access
    except InvalidType:
        return False
    return True


def match_mode(component):
    """probe `_check_name`"""
    canonical = component.get_canonical_name()
    if accepts(component, canonical + 'x-c18-unrelated') and accepts(component, 'x-c18-unrelated'):
        return 'anyName'
    if not accepts(component, canonical):
        raise RuntimeError('{} does not accept its own canonical name {!r}'.format(component.__name__, canonical))
    respelled = [s for s in (canonical.lower(), canonical.upper(), canonical.swapcase(), canonical.title()) if s != canonical]
    if not respelled:
        raise RuntimeError('{}: canonical name {!r} has no letters to respell'.format(component.__name__, canonical))
    got = [accepts(component, s) for s in respelled]
    if all(got):
        return 'caseInsensitive'
    if not any(got):
        return 'exact'
    raise RuntimeError('{}: _check_name accepts some respellings of {!r} only: {}'.format(
        component.__name__, canonical, list(zip(respelled, got))))


def tables():
    """[{cls, sep, components: [{attr, name, kind, optional, mode}], extension}]"""
    import attr
    field = _modules()
    out = []
    # sorted by class name: `__subclasses__` order depends on the import order of the process that extracts
    for cls in sorted(all_subclasses(field.FieldValueMultiple), key=lambda c: c.__name__):
        if inspect.isabstract(cls) or not attr.has(cls) or not cls.__module__.startswith('cryptoparser.'):
            continue                    # (the repository's tests define subclasses of their own)
        fields = attr.fields_dict(cls)
        types = cls._get_attr_to_validator_type_dict(fields)  # pylint: disable=protected-access
        comps, extension = [], None
        for name, attribute in fields.items():
            if attribute.metadata.get('extension', False):
                if extension is None:
                    extension = name
                continue
            component = types[name]
            comps.append({
                'attr': name,
                'name': component.get_canonical_name(),
                'kind': kind_of(component, field),
                'optional': attribute.default is not attr.NOTHING,
                'mode': match_mode(component),
                'component': component.__name__,
            })
        out.append({'cls': cls.__name__, 'sep': cls._get_header_value_list_class().get_separator(),  # pylint: disable=protected-access
                    'components': comps, 'extension': extension})
    return out


def render():
    out = ['/- GENERATED by tools/extract_fields.py from the live cryptoparser code. Do not edit. -/',
           'namespace Cp.Gen', '',
           '/-- how `_check_name` of a component class compares a spelled name with the canonical one (PROBED by calling it) -/',
           'inductive MatchMode where', '  | exact | caseInsensitive | anyName', 'deriving DecidableEq, Repr', '',
           '/-- nearest base class of the component in common/field.py -/',
           'inductive CompKind where', '  | ' + ' | '.join(KIND_NAMES), 'deriving DecidableEq, Repr', '',
           '/-- one attribute of a `FieldValueMultiple` subclass -/',
           'structure FieldComp where', '  attr : String', '  name : String', '  kind : CompKind', '  optional : Bool',
           '  mode : MatchMode', 'deriving DecidableEq, Repr', '',
           '/-- a `FieldValueMultiple` subclass: separator byte of its list class, components in attribute order, and the',
           'attribute that receives the pairs no component matched (`metadata={\'extension\': True}`) -/',
           'structure FieldTable where', '  cls : String', '  sep : UInt8', '  comps : List FieldComp', '  extension : Option String',
           'deriving DecidableEq, Repr', '']
    rows = []
    for t in tables():
        if len(t['sep']) != 1:
            raise RuntimeError('{}: separator {!r} is not one character'.format(t['cls'], t['sep']))
        comps = ',\n      '.join('⟨{}, {}, .{}, {}, .{}⟩'.format(
            lean_str(c['attr']), lean_str(c['name']), c['kind'], 'true' if c['optional'] else 'false', c['mode'])
            for c in t['components'])
        ext = 'none' if t['extension'] is None else 'some {}'.format(lean_str(t['extension']))
        rows.append('⟨{}, {}, [\n      {}],\n    {}⟩'.format(lean_str(t['cls']), ord(t['sep']), comps, ext))
    out.append('def fieldTables : List FieldTable :=\n  [' + ',\n   '.join(rows) + ']')
    out.append('')
    out.append('end Cp.Gen')
    return '\n'.join(out) + '\n'


# --------------------------------------------------------------------------------------------------
# the component assignment observed on the real class (driver op TX)
# --------------------------------------------------------------------------------------------------

def _hx(b):
    b = bytes(b)
    return b.hex() if b else '-'


class _Recorder(object):
    """stands in for a component class: the real name test, a recording value parser"""

    def __init__(self, component):
        self.component = component

    def _check_name(self, name):
        return self.component._check_name(name)  # pylint: disable=protected-access

    def get_canonical_name(self):
        return self.component.get_canonical_name()

    def parse_exact_size(self, parsable):
        return ('raw', bytes(parsable))


def observe_assignment(cls_name, data):
    """`OK attr=<slot>,… ext=[name:value,…]` — slot: `-` default, `!` matched without a value (named component),
    `=<hex>` the value text (named component) or the whole text handed over (positional component)"""
    import attr
    field = _modules()
    from cryptodatahub.common.exception import InvalidValue
    from cryptoparser.common.exception import InvalidType, NotEnoughData, TooMuchData
    cls = next(c for c in all_subclasses(field.FieldValueMultiple) if c.__name__ == cls_name and attr.has(c))
    fields = attr.fields_dict(cls)
    basic = collections.OrderedDict((n, a) for n, a in fields.items() if not a.metadata.get('extension', False))
    types = cls._get_attr_to_validator_type_dict(fields)  # pylint: disable=protected-access
    recorders = {n: _Recorder(types[n]) for n in basic}
    modes = {n: match_mode(types[n]) for n in basic}
    try:
        components = cls._get_header_value_list_class().parse_exact_size(data).value  # pylint: disable=protected-access
        params = {}
        cls._parse_basic_params(recorders, basic, components, params)  # pylint: disable=protected-access
    except InvalidValue:
        return 'ERR InvalidValue'
    except InvalidType:
        return 'ERR InvalidType'
    except NotEnoughData as e:
        return 'ERR NotEnoughData {}'.format(e.bytes_needed)
    except TooMuchData as e:
        return 'ERR TooMuchData {}'.format(e.bytes_needed)
    except Exception as e:  # pylint: disable=broad-except
        return 'CRASH {}'.format(type(e).__name__)
    slots = []
    for n in basic:
        v = params[n]
        if isinstance(v, tuple) and len(v) == 2 and v[0] == 'raw':
            raw = v[1]
            if modes[n] == 'anyName':
                slots.append('{}={}'.format(n, _hx(raw)))
            elif b'=' in raw:
                slots.append('{}={}'.format(n, _hx(raw.split(b'=', 1)[1])))
            else:
                slots.append('{}!'.format(n))
        else:
            slots.append('{}-'.format(n))
    ext = ','.join('{}:{}'.format(_hx(k.encode('ascii')), '~' if v is None else _hx(v.encode('ascii'))) for k, v in components.items())
    return 'OK {} ext=[{}]'.format(','.join(slots), ext)


def main():
    changed = write_if_changed(os.path.join(GEN, 'Fields.lean'), render())
    ts = tables()
    print('extract_fields: {} classes, {} components; Gen/Fields.lean {}'.format(
        len(ts), sum(len(t['components']) for t in ts), 'rewritten' if changed else 'unchanged'))


if __name__ == '__main__':
    main()
