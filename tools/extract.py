#!/venv/bin/python
# -*- coding: utf-8 -*-
"""Tie 1: regenerate the data part of the Lean model from /repo's CURRENT working tree.

Imports every cryptoparser module from the working tree, introspects it, and writes
lean/CpModel/Gen/*.lean.  Nothing is copied from a previous run; a file is rewritten only
when its content changes so that `lake build` stays incremental.
"""
from __future__ import print_function

import enum
import importlib
import inspect
import os
import pkgutil
import sys

VERIF = os.path.dirname(os.path.dirname(os.path.abspath(__file__)))
REPO = os.environ.get('CP_REPO', '/repo')
GEN = os.path.join(os.environ.get('CP_LEAN', os.path.join(VERIF, 'lean')), 'CpModel', 'Gen')
sys.path.insert(0, REPO)

import cryptoparser  # noqa: E402  pylint: disable=wrong-import-position

assert os.path.realpath(os.path.dirname(os.path.dirname(cryptoparser.__file__))) == os.path.realpath(REPO), \
    'cryptoparser imported from {} not from {}'.format(cryptoparser.__file__, REPO)

MODS = []
for _m in pkgutil.walk_packages(cryptoparser.__path__, 'cryptoparser.'):
    MODS.append(importlib.import_module(_m.name))

from cryptoparser.common import base as cpbase  # noqa: E402  pylint: disable=wrong-import-position


def all_subclasses(cls):
    out = []
    for sub in cls.__subclasses__():
        if sub not in out:
            out.append(sub)
        for s in all_subclasses(sub):
            if s not in out:
                out.append(s)
    return out


def lean_str(s):
    out = ['"']
    for ch in s:
        if ch == '"':
            out.append('\\"')
        elif ch == '\\':
            out.append('\\\\')
        elif ch == '\n':
            out.append('\\n')
        elif ch == '\r':
            out.append('\\r')
        elif ch == '\t':
            out.append('\\t')
        elif 32 <= ord(ch) < 127:
            out.append(ch)
        else:
            out.append('\\u{%x}' % ord(ch))
    out.append('"')
    return ''.join(out)


def lean_list(items, per_line=12):
    items = list(items)
    if not items:
        return '[]'
    rows = []
    for i in range(0, len(items), per_line):
        rows.append(', '.join(items[i:i + per_line]))
    return '[' + ',\n    '.join(rows) + ']'


def write_if_changed(path, text):
    try:
        with open(path) as f:
            if f.read() == text:
                return False
    except IOError:
        pass
    os.makedirs(os.path.dirname(path), exist_ok=True)
    with open(path, 'w') as f:
        f.write(text)
    return True


def member_code(member):
    value = member.value
    if hasattr(value, 'code'):
        return value.code
    return value


# --------------------------------------------------------------------------------------------------
# coded enumerations
# --------------------------------------------------------------------------------------------------

def numeric_tables():
    """(lean name, python path, code size, iteration entries, all members incl. aliases)."""
    tables = []
    seen = set()

    def add(name, enum_class, size, factory=None):
        if name in seen:
            return
        seen.add(name)
        entries = [(m.name, member_code(m)) for m in list(enum_class)]
        members = [(n, member_code(m)) for n, m in enum_class.__members__.items()]
        tables.append({
            'name': name,
            'py': enum_class.__module__ + '.' + enum_class.__name__,
            'factory': (factory.__module__ + '.' + factory.__name__) if factory else '',
            'size': size,
            'entries': entries,
            'members': members,
        })

    for factory in all_subclasses(cpbase.NByteEnumParsable):
        if inspect.isabstract(factory) and factory.__module__ == 'cryptoparser.common.base':
            continue
        try:
            enum_class = factory.get_enum_class()
            size = factory.get_byte_num()
        except NotImplementedError:
            continue
        add(enum_class.__name__, enum_class, size, factory)

    from cryptodatahub.tls.algorithm import TlsGreaseOneByte, TlsGreaseTwoByte, TlsCipherSuiteExtension
    add('TlsGreaseOneByte', TlsGreaseOneByte, 1)
    add('TlsGreaseTwoByte', TlsGreaseTwoByte, 2)
    add('TlsCipherSuiteExtension', TlsCipherSuiteExtension, 2)

    for mod in MODS:
        for _, obj in sorted(vars(mod).items()):
            if (inspect.isclass(obj) and issubclass(obj, enum.IntEnum) and
                    obj.__module__.startswith('cryptoparser.') and len(obj.__members__)):
                add(obj.__name__, obj, 0)
    return tables


def string_tables():
    tables = []
    for cls in all_subclasses(cpbase.StringEnumParsableBase):
        members = getattr(cls, '__members__', None)
        if not members:
            continue
        tables.append({
            'name': cls.__name__,
            'py': cls.__module__ + '.' + cls.__name__,
            'insensitive': issubclass(cls, cpbase.StringEnumCaseInsensitiveParsable),
            'entries': [(m.name, m.value.code) for m in list(cls)],
        })
    for cls in all_subclasses(cpbase.OpaqueEnumParsable):
        try:
            enum_class = cls.get_enum_class()
        except NotImplementedError:
            continue
        tables.append({
            'name': cls.__name__ + '_' + enum_class.__name__,
            'py': enum_class.__module__ + '.' + enum_class.__name__,
            'insensitive': False,
            'entries': [(m.name, m.value.code) for m in list(enum_class)],
        })
    return tables


def gen_enums():
    out = ['/- GENERATED by tools/extract.py from the live cryptoparser code. Do not edit. -/',
           'namespace Cp.Gen', '',
           '/-- A numerically coded enumeration as the code sees it: `codes`/`names` in iteration order',
           '(canonical members only — what `list(EnumClass)` yields and what the parser searches);',
           '`memberCodes`/`memberNames` are `__members__`, aliases included. `size` is the wire width in',
           'bytes when the enumeration has a factory class, 0 when the width is chosen at the call site. -/',
           'structure NumTable where',
           '  name : String',
           '  size : Nat',
           '  codes : List Nat',
           '  names : List String',
           '  memberCodes : List Nat',
           '  memberNames : List String',
           '']
    tables = numeric_tables()
    for t in tables:
        n = t['name']
        out.append('/-- `{}`{} -/'.format(t['py'], (' via `' + t['factory'] + '`') if t['factory'] else ''))
        out.append('def {}_codes : List Nat :=\n  {}'.format(n, lean_list(str(c) for _, c in t['entries'])))
        out.append('def {}_names : List String :=\n  {}'.format(
            n, lean_list((lean_str(x) for x, _ in t['entries']), 4)))
        out.append('def {}_memberCodes : List Nat :=\n  {}'.format(n, lean_list(str(c) for _, c in t['members'])))
        out.append('def {}_memberNames : List String :=\n  {}'.format(
            n, lean_list((lean_str(x) for x, _ in t['members']), 4)))
        out.append('def {n} : NumTable :=\n  {{ name := {q}, size := {s}, codes := {n}_codes, names := {n}_names,\n'
                   '    memberCodes := {n}_memberCodes, memberNames := {n}_memberNames }}'.format(
                       n=n, q=lean_str(n), s=t['size']))
        out.append('')
    out.append('def numTables : List NumTable :=\n  {}'.format(lean_list((t['name'] for t in tables), 6)))
    out.append('')
    out.append('/-- A string-coded enumeration (`StringEnumParsable*`, `OpaqueEnumParsable`). -/')
    out.append('structure StrTable where')
    out.append('  name : String')
    out.append('  insensitive : Bool')
    out.append('  codes : List String')
    out.append('  names : List String')
    out.append('')
    stables = string_tables()
    for t in stables:
        n = t['name']
        out.append('/-- `{}` -/'.format(t['py']))
        out.append('def {n} : StrTable :=\n  {{ name := {q}, insensitive := {i},\n    codes := {c},\n    names := {m} }}'.format(
            n=n, q=lean_str(n), i='true' if t['insensitive'] else 'false',
            c=lean_list((lean_str(c) for _, c in t['entries']), 4),
            m=lean_list((lean_str(x) for x, _ in t['entries']), 4)))
        out.append('')
    out.append('def strTables : List StrTable :=\n  {}'.format(lean_list((t['name'] for t in stables), 4)))
    out.append('')
    out.append('end Cp.Gen')
    return '\n'.join(out) + '\n', tables, stables


# --------------------------------------------------------------------------------------------------
# vector parameters, constants
# --------------------------------------------------------------------------------------------------

def code_size(cls):
    """width in bytes of the code points a factory / fallback class reads (`get_byte_num()`), 0 when it has none"""
    if cls is None or not hasattr(cls, 'get_byte_num'):
        return 0
    try:
        return int(cls.get_byte_num())
    except Exception:  # pylint: disable=broad-except
        return 0


def gen_vectors():
    out = ['/- GENERATED by tools/extract.py from the live cryptoparser code. Do not edit. -/',
           'namespace Cp.Gen', '',
           '/-- Parameters of a concrete `ArrayBase` subclass as returned by the live `get_param()`:',
           '`numSize` is `item_num_size` as the code computes it (with floating-point `math.log`);',
           '`itemSize` is 0 when items are not fixed-width numerics. -/',
           'structure VecP where',
           '  name : String',
           '  kind : String',
           '  min : Nat',
           '  max : Nat',
           '  numSize : Nat',
           '  itemSize : Nat',
           '  itemClass : String',
           '  fallbackClass : String',
           '  itemCodeSize : Nat      -- code width of the item factory (0: items are not code points)',
           '  fallbackCodeSize : Nat  -- code width of the fallback class (0: no fallback)',
           '']
    names = []
    for cls in all_subclasses(cpbase.ArrayBase):
        if inspect.isabstract(cls):
            continue
        try:
            param = cls.get_param()
        except Exception:  # pylint: disable=broad-except
            continue
        kinds = [b.__name__ for b in cls.__mro__
                 if b.__module__ == 'cryptoparser.common.base' and b.__name__ not in (
                     'ArrayBase', 'ParsableBase', 'ParsableBaseNoABC', 'Serializable')]
        if cls.__name__ in names:
            continue
        names.append(cls.__name__)
        out.append('/-- `{}.{}` -/'.format(cls.__module__, cls.__name__))
        out.append('def vec_{n} : VecP :=\n  {{ name := {q}, kind := {k}, min := {mi}, max := {ma}, numSize := {ns}, itemSize := {isz},\n'
                   '    itemClass := {ic}, fallbackClass := {fc}, itemCodeSize := {ics}, fallbackCodeSize := {fcs} }}'.format(
                       n=cls.__name__, q=lean_str(cls.__name__), k=lean_str(kinds[0] if kinds else ''),
                       mi=param.min_byte_num, ma=param.max_byte_num, ns=param.item_num_size,
                       isz=getattr(param, 'item_size', None) or 0,
                       ic=lean_str(getattr(getattr(param, 'item_class', None), '__name__', '') or ''),
                       fc=lean_str(getattr(getattr(param, 'fallback_class', None), '__name__', '') or ''),
                       ics=code_size(getattr(param, 'item_class', None)),
                       fcs=code_size(getattr(param, 'fallback_class', None))))
        out.append('')
    out.append('def vecParams : List VecP :=\n  {}'.format(lean_list(('vec_' + n for n in names), 4)))
    out.append('')
    out.append('end Cp.Gen')
    return '\n'.join(out) + '\n', names


def gen_consts():
    """Class-level constants the parsers branch on."""
    from cryptoparser.tls import record as tlsrecord, subprotocol as tlssub, extension as tlsext
    out = ['/- GENERATED by tools/extract.py from the live cryptoparser code. Do not edit. -/',
           'namespace Cp.Gen', '']
    consts = [
        ('TlsRecord_HEADER_SIZE', tlsrecord.TlsRecord.HEADER_SIZE),
        ('TlsAlertMessage_SIZE', tlssub.TlsAlertMessage._SIZE),  # pylint: disable=protected-access
        ('TlsHandshakeMessage_HEADER_SIZE', tlssub.TlsHandshakeMessage._HEADER_SIZE),  # pylint: disable=protected-access
    ]
    for name, value in consts:
        out.append('def {} : Nat := {}'.format(name, int(value)))
    out.append('')
    # handshake type per message class, in the variant order of TlsHandshakeMessageVariant
    variant = tlssub.TlsHandshakeMessageVariant._get_variant_types()  # pylint: disable=protected-access
    out.append('/-- `TlsHandshakeMessageVariant._get_variant_types()`: (class name, handshake type code) in order -/')
    out.append('def handshakeVariants : List (String × Nat) :=\n  {}'.format(lean_list(
        ('({}, {})'.format(lean_str(c.__name__), int(c.get_handshake_type())) for c in variant), 3)))
    out.append('')
    for side, var in (('Client', tlsext.TlsExtensionVariantClient), ('Server', tlsext.TlsExtensionVariantServer)):
        types = var._get_variant_types()  # pylint: disable=protected-access
        rows = []
        for c in types:
            if c is tlsext.TlsExtensionUnparsed:
                rows.append('("TlsExtensionUnparsed", 65536)')
            else:
                rows.append('({}, {})'.format(lean_str(c.__name__), c.get_extension_type().value.code))
        out.append('/-- `TlsExtensionVariant{}._get_variant_types()`: (class name, extension type code) in the order tried;'.format(side))
        out.append('`TlsExtensionUnparsed` (which accepts any type) is listed with the pseudo-code 65536 -/')
        out.append('def extVariants{} : List (String × Nat) :=\n  {}'.format(side, lean_list(rows, 3)))
        out.append('')
    sp = tlssub.TlsSubprotocolMessageParser._get_subprotocol_parsers()  # pylint: disable=protected-access
    out.append('def tlsSubprotocolParsers : List (Nat × String) :=\n  {}'.format(lean_list(
        ('({}, {})'.format(int(k), lean_str(v.__name__)) for k, v in sorted(sp.items())), 3)))
    sp = tlssub.SslSubprotocolMessageParser._get_subprotocol_parsers()  # pylint: disable=protected-access
    out.append('def sslSubprotocolParsers : List (Nat × String) :=\n  {}'.format(lean_list(
        ('({}, {})'.format(int(k), lean_str(v.__name__)) for k, v in sorted(sp.items())), 3)))
    out.append('')
    out.append('end Cp.Gen')
    return '\n'.join(out) + '\n'


def default_entries():
    """(class, field, default kind, converter kind) for every attrs field with a default."""
    import attr
    rows = []
    seen = set()
    for mod in MODS:
        for _, cls in sorted(vars(mod).items()):
            if not (inspect.isclass(cls) and cls.__module__.startswith('cryptoparser') and attr.has(cls)) or cls in seen:
                continue
            seen.add(cls)
            for field in attr.fields(cls):
                default = field.default
                if default is attr.NOTHING:
                    continue
                if isinstance(default, attr.Factory):
                    kind = 'factory'
                else:
                    mutable = (isinstance(default, (list, dict, set, bytearray, cpbase.ArrayBase)) or
                               (attr.has(type(default)) and not isinstance(default, enum.Enum) and
                                not type(default).__module__.startswith('attr')))
                    kind = 'mutableShared' if mutable else 'immutable'
                conv = 'none'
                if field.converter is not None and kind == 'mutableShared':
                    try:
                        conv = 'identity' if field.converter(default) is default else 'copies'
                    except Exception:  # pylint: disable=broad-except
                        conv = 'identity'
                elif field.converter is not None:
                    conv = 'copies'
                rows.append((cls.__name__, field.name, kind, conv))
    return rows


def gen_defaults():
    out = ['/- GENERATED by tools/extract.py from the live cryptoparser code. Do not edit. -/',
           'namespace Cp.Gen', '',
           'inductive DefaultKind where', '  | immutable | mutableShared | factory', 'deriving DecidableEq, Repr', '',
           'inductive ConvKind where', '  | none | copies | identity', 'deriving DecidableEq, Repr', '',
           '/-- an attrs field with a default value: how the default is produced (a plain immutable value, a',
           'plain MUTABLE object evaluated once at class creation and therefore shared, or an `attr.Factory`)',
           'and what the field\'s converter does with it (probed on the live class). -/',
           'structure FieldDefault where', '  cls : String', '  field : String', '  dflt : DefaultKind', '  conv : ConvKind',
           'deriving DecidableEq, Repr', '']
    rows = default_entries()
    out.append('def fieldDefaults : List FieldDefault :=\n  {}'.format(lean_list(
        ('⟨{}, {}, .{}, .{}⟩'.format(lean_str(c), lean_str(f), k, v) for c, f, k, v in rows), 2)))
    out.append('')
    out.append('end Cp.Gen')
    return '\n'.join(out) + '\n'


def main():
    changed = []
    if write_if_changed(os.path.join(GEN, 'Defaults.lean'), gen_defaults()):
        changed.append('Defaults.lean')
    vtext, vnames = gen_vectors()
    if write_if_changed(os.path.join(GEN, 'Vectors.lean'), vtext):
        changed.append('Vectors.lean')
    if write_if_changed(os.path.join(GEN, 'Consts.lean'), gen_consts()):
        changed.append('Consts.lean')
    text, tables, stables = gen_enums()
    if write_if_changed(os.path.join(GEN, 'Enums.lean'), text):
        changed.append('Enums.lean')
    print('extract: {} numeric tables, {} string tables; changed: {}'.format(
        len(tables), len(stables), ','.join(changed) or '-'))
    # the SSH name tables, variant orders and HASSH field selections (tools/extract_ssh.py)
    sys.path.insert(0, os.path.dirname(os.path.abspath(__file__)))
    import extract_ssh
    extract_ssh.main()
    # the header/record component tables (tools/extract_fields.py)
    import extract_fields
    if write_if_changed(os.path.join(GEN, 'Fields.lean'), extract_fields.render()):
        print('extract_fields: Gen/Fields.lean rewritten')
    # the opaque-coded protocol names of the hello extensions (tools/extract_tlsext.py)
    import extract_tlsext
    if write_if_changed(os.path.join(GEN, 'TlsExt.lean'), extract_tlsext.render()):
        print('extract_tlsext: Gen/TlsExt.lean rewritten')


if __name__ == '__main__':
    main()
