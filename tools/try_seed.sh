#!/bin/bash
# usage: tools/try_seed.sh <patch.diff> <PROP> [<PROP> ...]
# Applies a seeded change to a scratch worktree of /repo (so that /repo itself stays untouched while
# other work uses it), runs the quick checks of the given properties against it (CP_REPO), removes it.
# With INPLACE=1 the patch is applied to /repo itself and undone afterwards.
set -u
patch="$(readlink -f "$1")"; shift
cd /verif
if [ "${INPLACE:-0}" = "1" ]; then
  if ! git -C /repo diff --quiet; then echo "/repo is dirty"; exit 3; fi
  git -C /repo apply "$patch" || { echo "patch does not apply"; exit 3; }
  target=/repo
else
  target=/tmp/try_repo_$$
  git -C /repo worktree add -q --detach "$target" HEAD || exit 3
  git -C "$target" apply "$patch" || { echo "patch does not apply"; git -C /repo worktree remove --force "$target"; exit 3; }
fi
for p in "$@"; do
  echo "=== $p with $patch"
  CP_REPO="$target" timeout 1500 ./check $p --tier quick 2>&1 | grep -v "^KNOWN-FINDING" | tail -4
done
if [ "${INPLACE:-0}" = "1" ]; then
  git -C /repo checkout -- .
else
  git -C /repo worktree remove --force "$target"
fi
# restore the generated tables and the build to /repo's own state
/venv/bin/python tools/extract.py > /dev/null
git -C /repo status --short
