#!/usr/bin/env python3
"""Regenerate /verif/MANIFEST.json from the table below (kept in one place so it stays valid)."""
import json
import os

VERIF = os.path.dirname(os.path.dirname(os.path.abspath(__file__)))

COMMON_NOTE = ("Trusted: Lean 4.33 kernel (axioms propext, Classical.choice, Quot.sound only; audited by #print axioms each "
               "run; no sorry/native_decide/bv_decide); tools/extract.py (tables regenerated from the live code each run); "
               "the hand-written Lean model, tied to /repo by the differential correspondence check run in the same command; "
               "the compiled driver cpdrv; CPython and the standard library. A harmless rewrite of the code can break the "
               "correspondence or a table obligation; that is then reported with no-failing-input-found.")

CHECKS = {
    'C10': dict(
        technique='Lean 4 proof (generic linear-search decoding lemmas + kernel-decided obligations on regenerated enum tables) + exhaustive code-space correspondence',
        text=("Theorems for every table, width and code value at once: a strictly decoded code is the first member carrying "
              "exactly that code and re-encodes to the bytes read; a code without member is rejected (strict) or preserved "
              "verbatim (fallback); members round-trip when codes are pairwise distinct. Per-table obligations (no two names "
              "share a code beyond RFC-sanctioned sharing, codes fit their width, GREASE tables = RFC 8701) are decided by the "
              "kernel on tables regenerated from the code on every run. The correspondence runs every member, every GREASE "
              "value and (thorough: all 2^8/2^16) codes of every factory through the real parsers, alone and inside vectors."),
        design='§6 C10',
        note=COMMON_NOTE + " String-coded enumerations: distinctness proved, longest-prefix matching exercised by correspondence only."),
    'C11': dict(
        technique='Lean 4 proof of the primitive codecs (unbounded Nat/Int, all widths and byte orders) + differential correspondence incl. TZ sweep',
        text=("Theorems: fixed-width integers round-trip with any suffix, equal int.to_bytes digit for digit, and out-of-range or "
              "negative values are rejected with InvalidValue (never truncated) for widths 1,2,3,4,8 and all byte orders; parse "
              "returns a value of the code space and consumes exactly the width; timestamps (s/ms, 4/8 bytes, sentinel of the "
              "field's own width) round-trip. The model has no time-zone parameter; zone independence of the implementation "
              "is exercised by running the same ops in child processes under 12 (quick) / all installed (thorough) TZ values. "
              "Flags and mpints: model tied by correspondence and checked against independent references (two's complement "
              "via int.to_bytes); their Lean round-trip theorems are listed in the evidence as they are added."),
        design='§6 C11',
        note=COMMON_NOTE + " NATIVE byte order modelled as little-endian. Calendar arithmetic is CPython's."),
    'C17': dict(
        technique='Lean 4 proof by kernel decision over the regenerated version table (all pairs and triples) + exhaustive pairwise correspondence',
        text=("Trichotomy, transitivity, irreflexivity, eq/hash consistency, the chain SSL2 < SSL3 < TLS1.0 < 1.1 < 1.2 < every "
              "pre-release < TLS1.3, drafts ordered by number and the total_ordering-derived operators are decided by the Lean "
              "kernel over every pair/triple of the version table regenerated from the code. The model of __lt__/__eq__/hash is "
              "compared with the implementation on ALL ordered pairs for <, <=, ==, !=, >, >= and hash equality (exhaustive)."),
        design='§6 C17',
        note=COMMON_NOTE),
}

NOT_YET = {
}

ALL = ['C%02d' % i for i in range(1, 20)]


def main():
    checks = []
    for pid in ALL:
        if pid not in CHECKS:
            continue
        c = CHECKS[pid]
        checks.append({
            'property_id': pid,
            'quick_cmd': './check {} --tier quick'.format(pid),
            'thorough_cmd': './check {} --tier thorough'.format(pid),
            'evidence_file': 'evidence/{}.json'.format(pid),
            'replay_cmd_template': './check --replay {path}',
            'engine': 'lean-model',
            'level_claimed': {'category': 'proof', 'text': c['text'], 'design_ref': c['design']},
            'level_note': c['note'],
            'technique': c['technique'],
        })
    na = []
    for pid in ALL:
        if pid not in CHECKS:
            na.append({'property_id': pid, 'reason': NOT_YET.get(
                pid, 'not claimed yet: the Lean model and correspondence for this property are not built at this commit '
                     '(planned in DESIGN.md §11; the technique applies)')})
    manifest = {
        'version': 1,
        'setup_cmd': './setup.sh',
        'hooks': {
            'guard': 'CRYPTOPARSER_VERIF',
            'enable': 'no hooks: all instrumentation wraps the library inside the harness process; nothing in /repo is guarded',
            'baseline_off_cmd': 'cd /repo && /venv/bin/python -m pytest -ra -q -p no:cacheprovider --timeout=900 --continue-on-collection-errors',
            'source_commits': [],
            'add_only': True,
        },
        'engines': [
            {'name': 'lean-model', 'path': 'lean', 'serves_properties': sorted(CHECKS),
             'kind_free_text': 'Lean 4 model (CpModel), RFC-level spec (CpSpec), lemmas (CpProofs), one theorem file per property (CpProps), native driver cpdrv'},
            {'name': 'extractor', 'path': 'tools/extract.py', 'serves_properties': sorted(CHECKS),
             'kind_free_text': 'regenerates lean/CpModel/Gen/*.lean from the live code on every run'},
            {'name': 'correspondence-harness', 'path': 'harness', 'serves_properties': sorted(CHECKS),
             'kind_free_text': 'differential check model vs implementation over a line protocol, implementation-side property oracles, failing-input search'},
        ],
        'checks': checks,
        'not_applicable': na,
        'notes': 'Genuine defects repaired in /repo are listed under "fixed" in known_findings.json; see DESIGN.md §8.',
    }
    with open(os.path.join(VERIF, 'MANIFEST.json'), 'w') as f:
        json.dump(manifest, f, indent=1)
    print('MANIFEST.json: {} checks, {} not_applicable'.format(len(checks), len(na)))


if __name__ == '__main__':
    main()
