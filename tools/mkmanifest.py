#!/usr/bin/env python3
"""Regenerate /verif/MANIFEST.json from the table below (kept in one place so it stays valid)."""
import json
import os

VERIF = os.path.dirname(os.path.dirname(os.path.abspath(__file__)))

COMMON_NOTE = ("Trusted: Lean 4.33 kernel (axioms propext, Classical.choice, Quot.sound only; audited by #print axioms each "
               "run; no sorry/native_decide/bv_decide); tools/extract.py (tables regenerated from the live code each run); "
               "the hand-written Lean model, tied to /repo by the differential correspondence check run in the same command; "
               "the compiled driver cpdrv; CPython and the standard library. A harmless rewrite of the code can break the "
               "correspondence or a table obligation; that is then reported with no-failing-input-found.")

CLS_NOTE = (COMMON_NOTE + " Inside the Lean model (exact correspondence on valid AND malformed inputs): TLS record, alert, CCS, "
            "application data, ClientHello/ServerHello/HelloRetryRequest/Certificate/CertificateRequest/ServerKeyExchange/CertificateStatus/"
            "ServerHelloDone and the handshake variant, every hello-extension class and their vectors, the SSL 2.0 record and "
            "messages, SSH (banner, packets, KEXINIT, DH/GEX, keys, v01 certificates), DNS records, MySQL/RDP/OpenVPN/PostgreSQL. Classes outside the model are covered by the "
            "implementation-side oracle only (property evaluated on the real code), which is search, not proof. Values that go "
            "through idna/asn1crypto/dateutil/urllib3 are outside the model.")

CHECKS = {
    'C01': dict(
        technique='Lean 4 proof of the round-trip law per codec combinator, instantiated per modelled class + differential correspondence + implementation-side round-trip oracle',
        text=("RoundTrip (compose succeeds; parse of the composed bytes followed by ANY suffix returns the value and consumes "
              "exactly the composed bytes) is proved for the primitive codecs and preserved by seq/mapE/guardE/minSize/framed/the "
              "vector and item-loop combinators; instantiated (CpProps/C01, C01Hello, C01Ext, C01Ssl2) for TlsProtocolVersion, "
              "TlsRecord, alert, CCS, ServerKeyExchange, ServerHelloDone, CertificateStatus, Certificate, CertificateRequest, "
              "ClientHello, ServerHello/HelloRetryRequest under explicit decidable well-formedness predicates, for every hello "
              "extension class through the variant of its side, and for the SSL 2.0 record and its three message classes; SSH, "
              "DNS and opportunistic-TLS classes in C07/C08/C09. False full statements are kept visible with witnesses (e.g. a "
              "65533-byte server name). Every generated object of every modelled class is composed, parsed by code and model and "
              "compared; the implementation oracle checks field-by-field equality, also for ~390 classes harvested from the "
              "repository tests and 99 text-field classes built by type-directed generators."),
        design='§6 C01', note=CLS_NOTE),
    'C02': dict(
        technique='Lean 4 proof of NoCrash per combinator/class (every non-documented Python exception is a crash branch of the model) + malformed-stream correspondence + crash monitor on the real code',
        text=("NoCrash (no input reaches a branch modelling IndexError/ValueError/TypeError/KeyError/struct.error/"
              "NotImplementedError/non-termination) is proved for the primitives, the coded-enum and IntEnum positions, "
              "seq/framed, TlsRecord, alert, CCS, version, every handshake class incl. ServerHello/HelloRetryRequest, Certificate, "
              "CertificateRequest, every extension body parser, the SSL 2.0 record and messages; for ClientHello and the handshake "
              "variant the only crash token left is the model boundary UNMODELLED (server names the idna codec would change). "
              "Truncated, bit-flipped, length-corrupted and spliced encodings of every modelled class run through code and "
              "model; any exception outside the four documented ones on the real code is a violation by itself, also on the "
              "harvested corpus with header-directed, text and JSON mutations."),
        design='§6 C02', note=CLS_NOTE),
    'C03': dict(
        technique='Lean 4 proof of LenBound/Positive/SelfDelim/declared-length per framing unit and of the entry-point wrappers + correspondence with trailing bytes',
        text=("For every codec: parse_mutable removes exactly the first n bytes, a failed parse leaves the buffer untouched, "
              "parse_exact_size succeeds iff n = len. LenBound/Positive/SelfDelim and n = declared length are proved for "
              "TlsRecord and for EVERY TLS handshake message class (the framing decides them, whatever the payload parser), for "
              "SSH binary packets (any message codec and the three record classes) and the identification string; for the SSL 2.0 "
              "record LenBound/Positive and the exact consumed length are proved, 'n = declared' and SelfDelim are refuted with "
              "witnesses (the record is not confined to its declared length: known finding pinned by a repo test) and proved in "
              "their partial forms. Encodings with trailing bytes (incl. the unit's own last byte, line terminators, the unit "
              "itself), concatenations and corrupted length fields are compared between code and model incl. the buffer after "
              "parse_mutable; frames written from the specification (SSL 2.0 both header forms with padding, LDAP long-form "
              "lengths) must be consumed exactly."),
        design='§6 C03', note=CLS_NOTE),
    'C04': dict(
        technique='Lean 4 proof: PrefixReject per record layer + generic reader-loop reassembly theorem (induction over chunk lists) instantiated; exhaustive prefix correspondence; reader loop on the real code',
        text=("PrefixReject (every proper prefix of a composed record is rejected with NotEnoughData(m), 1 <= m <= bytes "
              "missing) is proved for TlsRecord, every TLS handshake message class, the SSL 2.0 record, SSH binary packets and "
              "name-lists; the generic theorems reader_reassembles / reader_never_overasks / fragmentation independence (any codec "
              "with RoundTrip + PrefixReject, any chunking) are instantiated for TlsRecord, an opaque handshake class and SslRecord. "
              "The SSH identification string is the visible exception (a prefix without LF is InvalidValue: known finding pinned by "
              "a repo test). Every cut position of generated records of every modelled layer, and of LDAP messages on the "
              "implementation, is checked; a parse_mutable/bytes_needed reader loop is driven over random chunkings incl. "
              "handshake messages fragmented over records."),
        design='§6 C04', note=CLS_NOTE),
    'C05': dict(
        technique='Lean 4 proof: canonical form from ParseWf + RoundTrip per class + correspondence on accepted mutants + parse/compose/parse oracle on the real code',
        text=("Canonical c (accepted input => compose succeeds, re-parses to the same value consuming everything, and "
              "composes to the same bytes again) follows from ParseWf and RoundTrip; proved for the primitive codecs, "
              "TlsProtocolVersion, TlsRecord, alert, CCS, Certificate, CertificateRequest, ClientHello, ServerHello/HelloRetryRequest, "
              "every extension body, the SSL 2.0 messages, SSH mpints (every accepted non-canonical input re-composes canonically), "
              "DNS names/MX/DS/RRSIG/DNSKEY. Mutated-but-accepted encodings of all modelled classes are recomposed by code and model "
              "and compared; the oracle checks parse->compose->parse->compose on the real code, also on inputs that do NOT come "
              "from compose(): RFC reference encodings of generated TLS messages, the harvested corpus, text spellings made to end "
              "in separator characters."),
        design='§6 C05', note=CLS_NOTE),
    'C06': dict(
        technique='Lean 4 proof that the model composers equal an independent RFC-level spec encoder and that every vector prefix width equals the RFC ceiling width + independent Python RFC encoder vs the real code',
        text=("50 theorems (CpProps/C06.lean, C06Ssl2.lean, C06Ext.lean): TlsRecord/alert/CCS compose = Spec encoders written from RFC 5246; "
              "every handshake class composes msg_type + uint24 length + body; for every vector class the live item_num_size "
              "(float math.log) equals the width required by the RFC ceiling and the ceiling equals the RFC's; floors differing "
              "from the RFC are exactly the listed ones; every hello-extension body (server_name, ALPN/ALPS, NPN, status_request, "
              "key_share client/server/hello-retry, token_binding, SCT list) and CertificateRequest compose to independent Spec "
              "encoders written from RFC 6066/7301/8446/8472/6962; the SSL 2.0 record and messages compose to the Spec of the "
              "SSL 2.0 draft and both header forms of the Spec decode back. An independent Python encoder written from the RFCs "
              "is compared byte for byte with compose() of generated objects, and its output is parsed back through the class, "
              "through the extension variant of its side and inside an extension list followed by another extension."),
        design='§6 C06', note=CLS_NOTE + " The Spec encoders are a reading of the RFCs (trusted)."),
    'C07': dict(
        technique='Lean 4 proof that the SSH model composers equal an RFC-level spec encoder and that the parsers invert it (name-lists, mpints, binary packets, KEXINIT, DH/GEX messages, key blobs, certificates, banner) + differential correspondence + independent Python RFC encoder/decoder vs the real code',
        text=("54 theorems (CpProps/C07.lean): padding rule (4..255, total multiple of 8, packet_length counts padding-length byte, "
              "payload and padding) for every payload length; name-list compose = RFC string of comma-joined names and parse of "
              "an RFC name-list recovers the names in order with unknown names preserved; binary packet compose = "
              "Spec.binaryPacket, round trip, LenBound/Positive/SelfDelim/PrefixReject and n = 4 + packet_length for any message "
              "codec and for the three real record classes; KEXINIT field order (regenerated from the code), round trip and "
              "compose = Spec.encodeKexInit; DH/GEX/disconnect/unimplemented/newkeys messages; RSA/DSS/Ed25519 key blobs; "
              "certificate options; identification string compose = RFC form with the 255-byte limit and round trip. Statements "
              "that are false of the code are kept visible with kernel-checked witnesses (certificate option data not wrapped "
              "in a string: known finding). Every generated object is composed by code and model and by an independent "
              "reference encoder written from the RFC text, and parsed back."),
        design='Appendix B (SSH)', note=CLS_NOTE + " X.509 host keys, v00 certificates and the source-address option are UNMODELLED (oracle only); ECDSA points go through asn1crypto."),
    'C08': dict(
        technique='Lean 4 proof that the DNS record model composers equal RFC-level spec encoders, the parsers invert them, and the key tag equals the RFC 4034 Appendix B algorithm + correspondence + independent Python reference',
        text=("41 theorems (CpProps/C08.lean): domain names (labels, root, length limits), MX, TXT strings, DS, DNSKEY (flags, "
              "protocol, algorithm, key material per algorithm), RRSIG (fixed part, signer name, signature) compose to the "
              "RFC 1035/4034 RDATA layout written independently in CpSpec/Dns.lean and parse back; the key tag of the model "
              "equals the Appendix B sum over the RDATA for odd and even lengths and the B.1 rule for algorithm 1. Deviations "
              "of the real code that its own tests pin are kept as visible false statements with witnesses (known findings). "
              "Generated and mutated RDATA run through code and model; a Python reference computes the key tag from the bytes."),
        design='Appendix B (DNS)', note=CLS_NOTE),
    'C09': dict(
        technique='Lean 4 proof that the opportunistic-TLS message models (MySQL, RDP TPKT/COTP/negotiation, OpenVPN, PostgreSQL, LDAP framing) compose to spec-level encoders and parse back with the wire message type + correspondence + independent Python encoders',
        text=("56 theorems (CpProps/C09.lean): per message class compose = the layout written from the protocol documents in "
              "CpSpec/Opp.lean (little-endian MySQL fields, split capability flags, null-terminated strings, 3-byte length; the "
              "HandshakeV10 auth-plugin-data part 2 rule MAX(13, len-8) for all three greeting kinds - repaired in /repo; TPKT "
              "length incl. header; X.224 CR/CC with negotiation request/response, the zero protocol value normalised - repaired; "
              "OpenVPN opcode/key-id byte, session ids, packet-id arrays, 2-byte TCP length; PostgreSQL SSLRequest), round trip with "
              "any suffix, and the parsed message type is the type on the wire (a confirm is never returned as a request). LDAP decoding goes "
              "through asn1crypto (result code and message type: implementation side, against an independent BER encoder); the library's "
              "own LDAP framing function is modelled (CpModel/Opp/Ldap.lean) and proved to return the TLV length for every BER length "
              "form - short, long on 1..127 octets, minimal or zero-padded (CpProps/C09Ldap.lean, 9 theorems; the two RFC 4511 encodings of the spec are consumed completely whatever follows) - and run against the "
              "model on generated headers; conformant messages in every length form are parsed with and without following octets. The one deviation left is the X.224 reference "
              "order, pinned by the repository tests (known finding, visible false statement with witness)."),
        design='Appendix B (OPP)', note=CLS_NOTE),
    'C14': dict(
        technique='Lean 4 proof over a model of the serialisation walk (PyVal -> JSON / Markdown): well-formedness, determinism and faithfulness by structural induction + correspondence on values harvested from the real objects + json.loads / determinism oracles on the real code',
        text=("23 theorems (CpProps/C14.lean): JSON and Markdown rendering are total on the model values (given keys that "
              "Python can order); the JSON text is accepted by the model JSON grammar and parses back to the value "
              "(render_wellformed, escape_roundtrip, render_faithful); values equal up to the insertion order of their sets "
              "render identically in JSON and Markdown (…_deterministic_up_to_sets, under the stated distinct-keys "
              "hypothesis, shown necessary by a witness); Markdown leaves the installed text encoder as it found it and its "
              "output does not depend on what was serialised before (as_markdown_encoder_restored, "
              "as_markdown_independent_of_history, encoder_installed_later_is_honoured); a non-dict _asdict() value is rendered "
              "as text. The three defects the earlier full statements exposed (set iteration order, encoder pinned on the "
              "class, non-text Markdown) were repaired in /repo and are now regression examples. Every object of the harvested "
              "corpus, of the generators and of a set of X.509-carrying report objects is serialised twice, in shuffled orders "
              "in three processes with different hash seeds, parsed with json.loads, and compared with the model output."),
        design='Appendix B (C14)', note=COMMON_NOTE + " Python's json module and str() of leaf values are trusted; PYTHONHASHSEED is varied across child processes."),
    'C16': dict(
        technique='Lean 4 proof that the HASSH preimage of a parsed KEXINIT equals the semicolon-joined name-list strings on the wire and that fingerprints are digest-renderings of the RFC 4253 key blob (digest abstract) + correspondence + hashlib reference from wire bytes',
        text=("7 theorems (CpProps/C16.lean): hassh_conforms (for every accepted KEXINIT the client and server preimages are "
              "exactly the wire strings of the selected name-lists joined by ';', order and unknown names preserved; field "
              "selection regenerated from the code), kexinit_lists_are_wire_strings, key_bytes_is_blob, fingerprint_format for "
              "any digest function H (SHA256:/SHA1: + base64, MD5: + colon hex, known_hosts = base64 of the blob), base64 and "
              "hex renderings = RFC 4648 for every byte string. The harness recomputes HASSH and fingerprints with hashlib from "
              "the wire bytes of generated messages/keys and compares with the library and the model."),
        design='Appendix B (SSH)', note=CLS_NOTE + " MD5/SHA-1/SHA-256 are abstract functions in the theorems (hashlib trusted)."),
    'C18': dict(
        technique='Lean 4 proof over a model of the text scanner and of the component tables regenerated from the code: parse is invariant under an inductive family of RFC-insignificant respellings + correspondence of the scanner and name matching + variant oracle on the real code',
        text=("72 theorems (CpProps/C18a.lean, C18.lean): scanner level - optional whitespace runs, empty elements, separators, for the "
              "plain and for the quote-aware list scanner (a separator inside a quoted-string does not split: "
              "quoted_separator_not_split; the quote-aware scanner equals its functional specification on ANY bytes incl. unbalanced "
              "quotes and backslashes, is total, crash-free and linear: <= 21*len+15 steps); table level - matches_rfc (the live "
              "name-matching modes equal the RFC rules, no deviation left), fields_spelling_invariant: for every table without "
              "positional component every combination of whitespace/empty-element edits, reordering, unknown directives with fresh "
              "names - also with quoted values containing the separator - and re-casing of case-insensitive names parses to the same "
              "result, instantiated for nine live classes; the canonical spelling with a separator inside a quoted value parses back; "
              "the full statement over all classes is refuted with witnesses for the two positional classes (Content-Type, "
              "X-XSS-Protection) and the partial kept. The oracle generates spellings from the RFC grammars for every listed "
              "header/record type and compares parsed objects; header blocks are compared field by field with a reference splitter. "
              "Quote-unaware splitting and the all-or-nothing CSP policy were defects, repaired in /repo."),
        design='Appendix B (C18)', note=COMMON_NOTE + " Component value parsers (URLs, dates, base64) are outside the model; the variant oracle runs on the real code."),
    'C19': dict(
        technique='Lean 4 proof of linear tick bounds for an instrumented copy of the model parsers (ticks per loop pass / primitive / table search), of declared-count independence and of bounded class-graph depth + line-event scaling measurements of the real code',
        text=("29 theorems (CpProps/C19.lean): item loops take at most len+1 passes and never exhaust fuel; a declared count or "
              "length larger than the data is rejected after constant work (numeric arrays, vectors, opaque); variant walks try "
              "at most the number of alternatives; TlsRecord constant; every handshake class linear given its payload parser; "
              "ClientHello <= A*len+B for EVERY input with A, B expressions over the regenerated tables; ServerHello, "
              "Certificate, handshake variant likewise; the class call graph is acyclic with depth <= 7. On the real code "
              "interpreter line events are counted (sys.settrace) for 256 scalable input shapes over 81 classes at sizes s..8s "
              "and for maximal declared counts; events must stay linear and independent of declared values, and within "
              "40*ticks+400 of the model. Wall-clock effects of C-level slicing/bigint are reported, not decided."),
        design='Appendix B (C19)', note=COMMON_NOTE + " The tick model covers the TLS classes; other families are measured on the real code only (search, not proof)."),
    'C13': dict(
        technique='Lean 4 proof over the regenerated table of attrs defaults (ownership model) + runtime monitors for observer purity and buffer aliasing on the real code',
        text=("(b) proved: in the ownership model, if no field stores its class-level default object then an in-place edit "
              "through one default-constructed instance is invisible through every other instance and leaves the defaults "
              "untouched (no_shared_state); the table of all 145 defaulted attrs fields is regenerated from the live classes "
              "and the fields that still share are proved to be exactly the four Set-Cookie flag components (known finding). "
              "(a) observers are functions in the model; on the real code every observer is called twice in shuffled order on "
              "generated objects, incl. client hellos whose compose fails at the size bound, and a deep canonical rendering "
              "before/after is compared. (c) aliasing of caller buffers is Python object identity: monitored only (parse from "
              "a bytearray, overwrite/truncate it, compare; parse_mutable vs parse_immutable)."),
        design='§6 C13', note=COMMON_NOTE + " (a) and (c) are runtime monitoring on the implementation, not proof obligations."),
    'C15': dict(
        technique='Lean 4: full statement refuted by kernel-checked witnesses, partial theorem (JA3 of every parsed hello outside the three pinned deviation classes = published rule on its wire-order code lists; stable under compose-and-parse) + JA3 from wire bytes (Lean spec and independent Python) vs implementation',
        text=("ja3() is modelled over the parsed ClientHello; the published definition is written as a Lean function of the "
              "wire bytes (CpSpec/Ja3.lean). C15_full (ja3 of the parsed object = definition applied to the bytes) is proved "
              "FALSE with witnesses (GREASE cipher suite kept; SCSV suite dropped) - recorded as known findings because the "
              "repository's own test pins them. Proved: the elliptic-curve section equals the published rule on the wire "
              "codes for canonical items, GREASE tables = RFC 8701, no known group/extension code is GREASE. C15_partial_fields "
              "(CpProps/C15Partial.lean): for EVERY hello the parser returns that is outside the three recorded deviation classes "
              "(hypotheses = their negations) JA3 is the published last stage (GREASE filter in every section, decimal, joins) "
              "applied to the hello's wire-order code lists, the last supported-groups / point-formats extension deciding; "
              "ja3_stable: compose-and-parse returns the same value, hence the same JA3. Every generated "
              "hello is checked four ways (library, model, Lean spec from bytes, Python reference from bytes) and any "
              "deviation outside the three recorded classes is a violation."),
        design='§6 C15', note=CLS_NOTE),
    'C10': dict(
        technique='Lean 4 proof (generic linear-search decoding lemmas + kernel-decided obligations on regenerated enum tables) + exhaustive code-space correspondence',
        text=("Theorems for every table, width and code value at once: a strictly decoded code is the first member carrying "
              "exactly that code and re-encodes to the bytes read; a code without member is rejected (strict) or preserved "
              "verbatim (fallback); members round-trip when codes are pairwise distinct. Per-table obligations (no two names "
              "share a code beyond RFC-sanctioned sharing, codes fit their width, GREASE tables = RFC 8701) are decided by the "
              "kernel on tables regenerated from the code on every run. The correspondence runs every member, every GREASE "
              "value and (thorough: all 2^8/2^16) codes of every factory through the real parsers, alone and inside vectors."),
        design='§6 C10',
        note=COMMON_NOTE + " String-coded enumerations: distinctness proved, longest-prefix matching exercised by correspondence only."),
    'C11': dict(
        technique='Lean 4 proof of the primitive codecs (unbounded Nat/Int, all widths and byte orders) + differential correspondence incl. TZ sweep',
        text=("43 theorems (CpProps/C11.lean, C11b.lean): fixed-width integers round-trip with any suffix, equal int.to_bytes digit for "
              "digit, and out-of-range or negative values are rejected with InvalidValue (never truncated) for widths 1,2,3,4,8 "
              "and all byte orders; parse returns a value of the code space and consumes exactly the width. Timestamps (s/ms, 4- "
              "and 8-byte fields): every instant up to 9999-12-31T23:59:59 that fits the field round-trips with any suffix, the "
              "all-ones sentinel is 'no limit', later instants are rejected (the 32-bit mask of 8-byte fields was a defect, "
              "repaired). Flags: set <-> bit field for every shift. SSH mpints, for ALL integers: compose = the shortest two's "
              "complement of RFC 4251 (Spec.sshMpint, minimality stated and proved), round trip with any suffix, every accepted "
              "non-canonical input re-composes to the canonical form; fixed-length mpints: total characterisation for every Int "
              "(negatives parse unsigned: known finding, pinned by a repo test). The model has no time-zone parameter; zone "
              "independence of the implementation is exercised by running the same ops in child processes under 12 (quick) / "
              "all installed (thorough) TZ values, with naive, UTC and offset datetimes."),
        design='§6 C11',
        note=COMMON_NOTE + " NATIVE byte order modelled as little-endian. Calendar arithmetic is CPython's."),
    'C12': dict(
        technique='Lean 4 proof: invariant preserved by every sequence operation (induction over operation lists) + refinement to a plain Python list + history correspondence on all 43 vector classes',
        text=("ArrayBase is modelled as a state machine step : VState -> Op -> VState x Out with the byte bookkeeping kept "
              "incrementally as _update_items_size does. Theorems: step_inv / reachable_inv (itemsSize = sum of item sizes and "
              "min <= itemsSize <= max in every reachable state), step_refines / reachable_matches_list (accepted edits give "
              "exactly what a plain list holds, refused edits change nothing and raise NotEnoughData(min)/TooMuchData(max)), "
              "prefix_fits (composed prefix = body length and fits its width for plain-concatenation vectors; the full "
              "statement over any framing is refuted with a witness). Random, adversarial and (thorough) exhaustive short "
              "histories over int and slice positions are applied to the real vector, a plain list and the model."),
        design='§6 C12', note=COMMON_NOTE + " Item sizes are abstract (what get_item_size returns); indices within ssize_t."),
    'C17': dict(
        technique='Lean 4 proof by kernel decision over the regenerated version table (all pairs and triples) + exhaustive pairwise correspondence',
        text=("Trichotomy, transitivity, irreflexivity, eq/hash consistency, the chain SSL2 < SSL3 < TLS1.0 < 1.1 < 1.2 < every "
              "pre-release < TLS1.3, drafts ordered by number and the total_ordering-derived operators are decided by the Lean "
              "kernel; from totality, transitivity and antisymmetry it is proved that sorting ANY two arrangements of the same "
              "versions gives the same list, hence the same min and max (sorted_independent_of_arrival). The order is decided by the "
              "kernel over every pair/triple of the version table regenerated from the code. The model of __lt__/__eq__/hash is "
              "compared with the implementation on ALL ordered pairs for <, <=, ==, !=, >, >= and hash equality (exhaustive)."),
        design='§6 C17',
        note=COMMON_NOTE),
}

NOT_YET = {
}

ALL = ['C%02d' % i for i in range(1, 20)]


def _recount(text):
    """'NN theorems (CpProps/A.lean, B.lean)' -> the current count of `theorem` declarations in those files"""
    import re

    def repl(m):
        files = [f.strip() for f in m.group(2).split(',')]
        n = 0
        for f in files:
            path = os.path.join(VERIF, 'lean', 'CpProps', f if f.endswith('.lean') else f + '.lean')
            if os.path.exists(path):
                n += sum(1 for line in open(path) if line.startswith('theorem '))
        return '{} theorems (CpProps/{})'.format(n, m.group(2)) if n else m.group(0)
    return re.sub(r'(\d+) theorems \(CpProps/([A-Za-z0-9_., ]+)\)', repl, text)


def main():
    checks = []
    for pid in ALL:
        if pid not in CHECKS:
            continue
        c = CHECKS[pid]
        checks.append({
            'property_id': pid,
            'quick_cmd': './check {} --tier quick'.format(pid),
            'thorough_cmd': './check {} --tier thorough'.format(pid),
            'evidence_file': 'evidence/{}.json'.format(pid),
            'replay_cmd_template': './check --replay {path}',
            'engine': 'lean-model',
            'level_claimed': {'category': 'proof', 'text': _recount(c['text']), 'design_ref': c['design']},
            'level_note': c['note'],
            'technique': c['technique'],
        })
    na = []
    for pid in ALL:
        if pid not in CHECKS:
            na.append({'property_id': pid, 'reason': NOT_YET.get(
                pid, 'not claimed yet: the Lean model and correspondence for this property are not built at this commit '
                     '(planned in DESIGN.md §11; the technique applies)')})
    manifest = {
        'version': 1,
        'setup_cmd': './setup.sh',
        'hooks': {
            'guard': 'CRYPTOPARSER_VERIF',
            'enable': 'no hooks: all instrumentation wraps the library inside the harness process; nothing in /repo is guarded',
            'baseline_off_cmd': 'cd /repo && /venv/bin/python -m pytest -ra -q -p no:cacheprovider --timeout=900 --continue-on-collection-errors',
            'source_commits': [],
            'add_only': True,
        },
        'engines': [
            {'name': 'lean-model', 'path': 'lean', 'serves_properties': sorted(CHECKS),
             'kind_free_text': 'Lean 4 model (CpModel), RFC-level spec (CpSpec), lemmas (CpProofs), one theorem file per property (CpProps), native driver cpdrv'},
            {'name': 'extractor', 'path': 'tools/extract.py', 'serves_properties': sorted(CHECKS),
             'kind_free_text': 'regenerates lean/CpModel/Gen/*.lean from the live code on every run'},
            {'name': 'correspondence-harness', 'path': 'harness', 'serves_properties': sorted(CHECKS),
             'kind_free_text': 'differential check model vs implementation over a line protocol, implementation-side property oracles, failing-input search'},
        ],
        'checks': checks,
        'not_applicable': na,
        'notes': 'Genuine defects repaired in /repo are listed under "fixed" in known_findings.json; see DESIGN.md §8.',
    }
    with open(os.path.join(VERIF, 'MANIFEST.json'), 'w') as f:
        json.dump(manifest, f, indent=1)
    print('MANIFEST.json: {} checks, {} not_applicable'.format(len(checks), len(na)))


if __name__ == '__main__':
    main()
